//! Typed Garble program generator, biased toward the shapes that make hash-iteration order
//! observable (DESIGN.md Appendix A): the same fallible expressions evaluated in different orders
//! in both arms of an `if`/`match`, re-used afterwards under separate conditions; `const` chains
//! that reference each other and external values; several structs/enums/fns per program.
//! Every choice is drawn from the case PRNG.

use crate::prng::Prng;

#[derive(Clone, Debug, PartialEq, Eq)]
pub enum Ty {
    Bool,
    U8,
    U16,
    I8,
    Usize,
    Arr(Box<Ty>, usize),
    Tup(Vec<Ty>),
    Struct(usize),
    Enum(usize),
}

impl Ty {
    fn is_int(&self) -> bool {
        matches!(self, Ty::U8 | Ty::U16 | Ty::I8)
    }
}

#[derive(Clone, Debug)]
struct StructDef {
    name: String,
    fields: Vec<(String, Ty)>,
}

#[derive(Clone, Debug)]
struct EnumDef {
    name: String,
    /// variant name, payload types
    variants: Vec<(String, Vec<Ty>)>,
}

#[derive(Clone, Debug)]
struct Helper {
    name: String,
    params: Vec<Ty>,
    ret: Ty,
}

#[derive(Clone, Debug)]
struct ConstItem {
    name: String,
    ty: Ty,
}

pub struct Gen<'a> {
    p: &'a mut Prng,
    structs: Vec<StructDef>,
    enums: Vec<EnumDef>,
    helpers: Vec<Helper>,
    consts: Vec<ConstItem>,
    vars: Vec<(String, Ty, bool)>,
    next_var: usize,
    /// budget of "expensive" operators (mul/div/mod) so circuits stay small
    heavy: i32,
    used_helpers: Vec<bool>,
    /// > 0 while generating an `if` condition / `match` scrutinee: Garble (like Rust) does not
    /// accept struct literals anywhere inside those, not even nested in a block
    in_cond: u32,
}

const STRUCT_NAMES: &[&str] = &["Point", "Rec", "Acc", "Pair", "Item", "Node"];
const ENUM_NAMES: &[&str] = &["Op", "Kind", "Msg", "State", "Choice", "Tag"];
const VARIANT_NAMES: &[&str] = &["A", "B", "C", "D", "Foo", "Bar", "Nil", "Val"];
const FIELD_NAMES: &[&str] = &["x", "y", "z", "w", "a", "b", "n", "v"];
const HELPER_NAMES: &[&str] = &["helper", "combine", "pick", "step", "mix", "norm"];
const CONST_NAMES: &[&str] = &["A", "B", "C", "D", "E", "LEN", "SIZE", "LIMIT", "K", "N"];
const PARTIES: &[&str] = &["PARTY_0", "PARTY_1", "P", "Q"];
const EXT_NAMES: &[&str] = &["X", "Y", "ROWS", "N", "FLAG", "SEED"];

fn tyname(t: &Ty, g: &Gen) -> String {
    match t {
        Ty::Bool => "bool".into(),
        Ty::U8 => "u8".into(),
        Ty::U16 => "u16".into(),
        Ty::I8 => "i8".into(),
        Ty::Usize => "usize".into(),
        Ty::Arr(e, n) => format!("[{}; {}]", tyname(e, g), n),
        Ty::Tup(ts) => format!("({})", ts.iter().map(|t| tyname(t, g)).collect::<Vec<_>>().join(", ")),
        Ty::Struct(i) => g.structs[*i].name.clone(),
        Ty::Enum(i) => g.enums[*i].name.clone(),
    }
}

impl<'a> Gen<'a> {
    pub fn new(p: &'a mut Prng) -> Self {
        Gen {
            p,
            structs: vec![],
            enums: vec![],
            helpers: vec![],
            consts: vec![],
            vars: vec![],
            next_var: 0,
            heavy: 6,
            used_helpers: vec![],
            in_cond: 0,
        }
    }

    fn fresh(&mut self, prefix: &str) -> String {
        self.next_var += 1;
        format!("{prefix}{}", self.next_var)
    }

    fn scalar_ty(&mut self) -> Ty {
        match self.p.below(10) {
            0..=2 => Ty::Bool,
            3..=6 => Ty::U8,
            7 => Ty::U16,
            _ => Ty::I8,
        }
    }

    fn int_ty(&mut self) -> Ty {
        match self.p.below(6) {
            0..=3 => Ty::U8,
            4 => Ty::U16,
            _ => Ty::I8,
        }
    }

    fn any_ty(&mut self, depth: u32) -> Ty {
        if depth == 0 {
            return self.scalar_ty();
        }
        match self.p.below(12) {
            0..=6 => self.scalar_ty(),
            7 => {
                let e = self.any_ty(depth - 1);
                let n = self.p.range(1, 3) as usize;
                Ty::Arr(Box::new(e), n)
            }
            8 => {
                let n = self.p.range(2, 3);
                Ty::Tup((0..n).map(|_| self.any_ty(depth - 1)).collect())
            }
            9 if !self.structs.is_empty() => Ty::Struct(self.p.usize_below(self.structs.len())),
            10 if !self.enums.is_empty() => Ty::Enum(self.p.usize_below(self.enums.len())),
            _ => self.scalar_ty(),
        }
    }

    fn lit(&mut self, t: &Ty) -> String {
        match t {
            Ty::Bool => if self.p.chance(1, 2) { "true" } else { "false" }.into(),
            Ty::U8 => format!("{}u8", self.p.pick(&[0u64, 1, 2, 3, 7, 100, 200, 255])),
            Ty::U16 => format!("{}u16", self.p.pick(&[0u64, 1, 2, 255, 256, 1000, 65535])),
            Ty::I8 => format!("{}i8", self.p.pick(&[-128i64, -3, -1, 0, 1, 2, 100, 127])),
            Ty::Usize => format!("{}usize", self.p.below(4)),
            Ty::Arr(e, n) => {
                if self.p.chance(1, 3) {
                    format!("[{}; {}]", self.lit(e), n)
                } else {
                    format!("[{}]", (0..*n).map(|_| self.lit(e)).collect::<Vec<_>>().join(", "))
                }
            }
            Ty::Tup(ts) => format!("({})", ts.iter().map(|t| self.lit(t)).collect::<Vec<_>>().join(", ")),
            Ty::Struct(i) => {
                let sd = self.structs[*i].clone();
                let fs: Vec<String> = sd.fields.iter().map(|(n, t)| format!("{n}: {}", self.lit(t))).collect();
                format!("{} {{ {} }}", sd.name, fs.join(", "))
            }
            Ty::Enum(i) => {
                let ed = self.enums[*i].clone();
                let (vn, payload) = self.p.pick(&ed.variants).clone();
                if payload.is_empty() {
                    format!("{}::{}", ed.name, vn)
                } else {
                    format!("{}::{}({})", ed.name, vn, payload.iter().map(|t| self.lit(t)).collect::<Vec<_>>().join(", "))
                }
            }
        }
    }

    fn vars_of(&self, t: &Ty) -> Vec<String> {
        self.vars.iter().filter(|(_, vt, _)| vt == t).map(|(n, _, _)| n.clone()).collect()
    }

    /// Paths (projections of variables) that have type `t`.
    fn paths_of(&self, t: &Ty) -> Vec<String> {
        let mut out = vec![];
        for (n, vt, _) in &self.vars {
            self.collect_paths(n.clone(), vt, t, 2, &mut out);
        }
        out
    }

    fn collect_paths(&self, path: String, vt: &Ty, want: &Ty, depth: u32, out: &mut Vec<String>) {
        if vt == want {
            out.push(path.clone());
        }
        if depth == 0 {
            return;
        }
        match vt {
            Ty::Tup(ts) => {
                for (i, t) in ts.iter().enumerate() {
                    self.collect_paths(format!("{path}.{i}"), t, want, depth - 1, out);
                }
            }
            Ty::Struct(i) => {
                for (f, t) in &self.structs[*i].fields {
                    self.collect_paths(format!("{path}.{f}"), t, want, depth - 1, out);
                }
            }
            Ty::Arr(e, n) => {
                // literal in-bounds index: infallible
                self.collect_paths(format!("{path}[{}]", n - 1), e, want, depth - 1, out);
            }
            _ => {}
        }
    }

    // --------------------------------------------------------------------------------------
    // expressions
    // --------------------------------------------------------------------------------------

    /// A fallible (panic-capable) integer expression over existing variables, if any exists.
    fn fallible(&mut self, t: &Ty) -> Option<String> {
        let xs = self.paths_of(t);
        if xs.len() < 2 && !(xs.len() == 1 && self.p.chance(1, 2)) {
            if xs.is_empty() {
                return None;
            }
        }
        let a = self.p.pick(&xs).clone();
        let b = self.p.pick(&xs).clone();
        let k = self.p.below(if self.heavy > 0 { 9 } else { 4 });
        let e = match k {
            0 | 1 => format!("({a} + {b})"),
            2 => format!("({a} - {b})"),
            3 => {
                // out-of-bounds capable index
                let idx = self.paths_of(&Ty::Usize);
                let arrs: Vec<(String, usize)> = self
                    .vars
                    .iter()
                    .filter_map(|(n, vt, _)| match vt {
                        Ty::Arr(e, len) if **e == *t => Some((n.clone(), *len)),
                        _ => None,
                    })
                    .collect();
                if !idx.is_empty() && !arrs.is_empty() {
                    let (arr, _) = self.p.pick(&arrs).clone();
                    let i = self.p.pick(&idx).clone();
                    format!("{arr}[{i}]")
                } else {
                    format!("({a} + {})", self.lit(t))
                }
            }
            4 => {
                self.heavy -= 1;
                format!("({a} * {b})")
            }
            5 => {
                // multiplication by a small constant (compiled as repeated addition)
                let k = *self.p.pick(&[2u64, 3, 3, 5, 7]);
                let suffix = match t {
                    Ty::U8 => "u8",
                    Ty::U16 => "u16",
                    _ => "i8",
                };
                if self.p.chance(1, 3) {
                    format!("(({a} * {k}{suffix}) * {}{suffix})", self.p.pick(&[2u64, 3]))
                } else {
                    format!("({a} * {k}{suffix})")
                }
            }
            6 => {
                self.heavy -= 1;
                format!("({a} / {b})")
            }
            7 => {
                self.heavy -= 1;
                format!("({a} % {b})")
            }
            _ => {
                if *t == Ty::I8 {
                    format!("(-{a})")
                } else {
                    format!("({a} - {})", self.lit(t))
                }
            }
        };
        Some(e)
    }

    /// Expression of type `t`. Blocks, `if` and `match` are only primaries in Garble's grammar
    /// (no binary operator may follow them), so they are always parenthesised here.
    pub fn expr(&mut self, t: &Ty, depth: u32) -> String {
        let e = self.expr_inner(t, depth);
        if e.starts_with('{') || e.starts_with("if ") || e.starts_with("match ") {
            format!("({e})")
        } else {
            e
        }
    }

    /// Same, for positions where a bare block / if / match is fine (let RHS, arm bodies, tail).
    pub fn expr_top(&mut self, t: &Ty, depth: u32) -> String {
        self.expr_inner(t, depth)
    }

    fn expr_inner(&mut self, t: &Ty, depth: u32) -> String {
        let leaf = depth == 0 || self.p.chance(1, 4);
        if leaf {
            let ps = self.paths_of(t);
            if !ps.is_empty() && self.p.chance(4, 5) {
                return self.p.pick(&ps).clone();
            }
            let cs: Vec<String> = self.consts.iter().filter(|c| c.ty == *t).map(|c| c.name.clone()).collect();
            if !cs.is_empty() && self.p.chance(1, 2) {
                return self.p.pick(&cs).clone();
            }
            return self.lit(t);
        }
        let d = depth - 1;
        // constructs available for every type
        let generic = self.p.below(20);
        match generic {
            0 | 1 => {
                let c = self.cond(&Ty::Bool, d);
                let a = self.expr_top(t, d);
                let b = self.expr_top(t, d);
                return format!("if {c} {{ {a} }} else {{ {b} }}");
            }
            2 => return self.match_expr(t, d),
            3 => {
                let v = self.fresh("t");
                let vt = self.scalar_ty();
                let e = self.expr(&vt, d);
                self.vars.push((v.clone(), vt, false));
                let body = self.expr(t, d);
                self.vars.pop();
                return format!("{{ let {v} = {e}; {body} }}");
            }
            4 => {
                let hs: Vec<usize> = (0..self.helpers.len()).filter(|&i| self.helpers[i].ret == *t).collect();
                if !hs.is_empty() {
                    let i = *self.p.pick(&hs);
                    self.used_helpers[i] = true;
                    let h = self.helpers[i].clone();
                    let args: Vec<String> = h.params.iter().map(|pt| self.expr(pt, d.min(1))).collect();
                    return format!("{}({})", h.name, args.join(", "));
                }
            }
            5 => return self.share_reuse(t, d),
            6 if !self.structs.is_empty() && self.in_cond == 0 => {
                if let Some(e) = self.struct_match_expr(t, d) {
                    return e;
                }
            }
            _ => {}
        }
        match t {
            Ty::Bool => match self.p.below(9) {
                0 => {
                    let it = self.int_ty();
                    let a = self.expr(&it, d);
                    let b = self.expr(&it, d);
                    let op = *self.p.pick(&["<", ">", "<=", ">=", "==", "!="]);
                    format!("({a} {op} {b})")
                }
                1 => format!("!{}", self.expr_paren(&Ty::Bool, d)),
                2 => format!("({} && {})", self.expr(&Ty::Bool, d), self.expr(&Ty::Bool, d)),
                3 => format!("({} || {})", self.expr(&Ty::Bool, d), self.expr(&Ty::Bool, d)),
                4 => format!("({} ^ {})", self.expr(&Ty::Bool, d), self.expr(&Ty::Bool, d)),
                5 => format!("({} & {})", self.expr(&Ty::Bool, d), self.expr(&Ty::Bool, d)),
                6 => format!("({} == {})", self.expr(&Ty::Bool, d), self.expr(&Ty::Bool, d)),
                7 => {
                    // fallible comparison: panic-capable operand inside a short-circuit
                    let it = self.int_ty();
                    match self.fallible(&it) {
                        Some(f) => format!("({} && ({f} == {}))", self.expr(&Ty::Bool, d), self.lit(&it)),
                        None => self.lit(t),
                    }
                }
                _ => {
                    let ps = self.paths_of(t);
                    if ps.is_empty() {
                        self.lit(t)
                    } else {
                        self.p.pick(&ps).clone()
                    }
                }
            },
            Ty::U8 | Ty::U16 | Ty::I8 => match self.p.below(12) {
                0..=3 => match self.fallible(t) {
                    Some(f) => f,
                    None => self.lit(t),
                },
                4 => format!("({} ^ {})", self.expr(t, d), self.expr(t, d)),
                5 => format!("({} & {})", self.expr(t, d), self.expr(t, d)),
                6 => format!("({} | {})", self.expr(t, d), self.expr(t, d)),
                7 => {
                    let sh = self.p.below(4);
                    let op = if self.p.chance(1, 2) { "<<" } else { ">>" };
                    format!("({} {op} {sh}u8)", self.expr(t, d))
                }
                8 => {
                    let from = self.int_ty();
                    format!("({} as {})", self.expr_paren(&from, d), tyname(t, self))
                }
                9 => format!("({} as {})", self.expr_paren(&Ty::Bool, d), tyname(t, self)),
                10 => format!("({} + {})", self.expr(t, d), self.expr(t, d)),
                _ => format!("({} - {})", self.expr(t, d), self.expr(t, d)),
            },
            Ty::Usize => {
                let ps = self.paths_of(t);
                if !ps.is_empty() && self.p.chance(2, 3) {
                    self.p.pick(&ps).clone()
                } else {
                    self.lit(t)
                }
            }
            Ty::Arr(e, n) => {
                if self.p.chance(1, 3) {
                    format!("[{}; {}]", self.expr(e, d), n)
                } else {
                    format!("[{}]", (0..*n).map(|_| self.expr(e, d)).collect::<Vec<_>>().join(", "))
                }
            }
            Ty::Tup(ts) => format!("({})", ts.iter().map(|t| self.expr(t, d)).collect::<Vec<_>>().join(", ")),
            Ty::Struct(i) => {
                let sd = self.structs[*i].clone();
                let fs: Vec<String> = sd.fields.iter().map(|(n, t)| format!("{n}: {}", self.expr(t, d))).collect();
                format!("{} {{ {} }}", sd.name, fs.join(", "))
            }
            Ty::Enum(i) => {
                let ed = self.enums[*i].clone();
                let (vn, payload) = self.p.pick(&ed.variants).clone();
                if payload.is_empty() {
                    format!("{}::{}", ed.name, vn)
                } else {
                    format!("{}::{}({})", ed.name, vn, payload.iter().map(|t| self.expr(t, d)).collect::<Vec<_>>().join(", "))
                }
            }
        }
    }

    /// A Boolean expression usable as an `if` condition / `match` scrutinee (Garble, like Rust,
    /// does not accept a bare block or struct literal there).
    fn cond(&mut self, t: &Ty, d: u32) -> String {
        self.in_cond += 1;
        let e = self.expr(t, d);
        self.in_cond -= 1;
        if e.starts_with('{') || e.starts_with("if ") || e.starts_with("match ") || e.contains(" { ") {
            format!("({e})")
        } else {
            e
        }
    }

    fn expr_paren(&mut self, t: &Ty, d: u32) -> String {
        let e = self.expr(t, d);
        if e.starts_with('(') || !e.contains(' ') {
            e
        } else {
            format!("({e})")
        }
    }

    fn match_expr(&mut self, t: &Ty, d: u32) -> String {
        // scrutinee: bool, small int or enum
        let k = self.p.below(3);
        if k == 0 {
            let s = self.cond(&Ty::Bool, d);
            let a = self.expr_top(t, d);
            let b = self.expr_top(t, d);
            return format!("match {s} {{ true => {a}, false => {b} }}");
        }
        if k == 1 || self.enums.is_empty() {
            let it = if self.p.chance(3, 4) { Ty::U8 } else { Ty::I8 };
            let s = self.cond(&it, d);
            let n = self.p.range(1, 3);
            let mut arms = vec![];
            let mut used = vec![];
            for _ in 0..n {
                let v = self.p.below(4);
                if used.contains(&v) {
                    continue;
                }
                used.push(v);
                arms.push(format!("{} => {}", v, self.expr(t, d)));
            }
            arms.push(format!("_ => {}", self.expr(t, d)));
            return format!("match {s} {{ {} }}", arms.join(", "));
        }
        let ei = self.p.usize_below(self.enums.len());
        let ed = self.enums[ei].clone();
        let s = self.cond(&Ty::Enum(ei), d.min(1));
        let mut arms = vec![];
        for (vn, payload) in &ed.variants {
            if payload.is_empty() {
                arms.push(format!("{}::{} => {}", ed.name, vn, self.expr(t, d)));
            } else {
                let mut names = vec![];
                for pt in payload {
                    let v = self.fresh("m");
                    self.vars.push((v.clone(), pt.clone(), false));
                    names.push(v);
                }
                let body = self.expr(t, d);
                for _ in payload {
                    self.vars.pop();
                }
                arms.push(format!("{}::{}({}) => {}", ed.name, vn, names.join(", "), body));
            }
        }
        format!("match {s} {{ {} }}", arms.join(", "))
    }

    fn scalar_pattern(&mut self, t: &Ty) -> Option<String> {
        Some(match t {
            Ty::Bool => if self.p.chance(1, 2) { "true" } else { "false" }.to_string(),
            Ty::U8 | Ty::U16 => {
                if self.p.chance(1, 2) {
                    format!("{}", self.p.below(4))
                } else {
                    let lo = self.p.below(100);
                    format!("{}..{}", lo, lo + self.p.range(1, 100))
                }
            }
            Ty::I8 => format!("{}", self.p.below(5)),
            _ => return None,
        })
    }

    /// `match` over a struct value with several refutable field patterns per arm, the fields
    /// written in a different order in every arm.
    fn struct_match_expr(&mut self, t: &Ty, d: u32) -> Option<String> {
        let cands: Vec<usize> = (0..self.structs.len())
            .filter(|&i| self.structs[i].fields.iter().filter(|(_, ft)| matches!(ft, Ty::Bool | Ty::U8 | Ty::U16 | Ty::I8)).count() >= 1)
            .collect();
        if cands.is_empty() {
            return None;
        }
        let si = *self.p.pick(&cands);
        let sd = self.structs[si].clone();
        let scrut_paths = self.paths_of(&Ty::Struct(si));
        let sv = self.fresh("sv");
        let scrut = if !scrut_paths.is_empty() && self.p.chance(2, 3) { self.p.pick(&scrut_paths).clone() } else { self.expr(&Ty::Struct(si), d.min(1)) };
        let narms = self.p.range(1, 3);
        let mut arms = vec![];
        for _ in 0..narms {
            let mut fields = sd.fields.clone();
            self.p.shuffle(&mut fields);
            let mut pats = vec![];
            let mut bound = 0;
            let mut rest = false;
            for (fname, fty) in &fields {
                let refutable = self.p.chance(2, 3);
                match self.scalar_pattern(fty) {
                    Some(pat) if refutable => pats.push(format!("{fname}: {pat}")),
                    _ => {
                        if self.p.chance(1, 3) {
                            rest = true;
                        } else {
                            let v = self.fresh("f");
                            pats.push(format!("{fname}: {v}"));
                            self.vars.push((v, fty.clone(), false));
                            bound += 1;
                        }
                    }
                }
            }
            if rest && !pats.is_empty() {
                pats.push("..".into());
            } else if pats.is_empty() {
                let (fname, fty) = fields[0].clone();
                let v = self.fresh("f");
                pats.push(format!("{fname}: {v}"));
                self.vars.push((v, fty, false));
                bound += 1;
                if fields.len() > 1 {
                    pats.push("..".into());
                }
            }
            let body = self.expr_top(t, d);
            for _ in 0..bound {
                self.vars.pop();
            }
            arms.push(format!("{} {{ {} }} => {}", sd.name, pats.join(", "), body));
        }
        arms.push(format!("_ => {}", self.expr_top(t, d)));
        Some(format!("{{ let {sv} = {scrut}; match {sv} {{ {} }} }}", arms.join(", ")))
    }

    /// SHARE(k)+REUSE: the shape that makes `mux_panic`'s key order observable.
    fn share_reuse(&mut self, t: &Ty, d: u32) -> String {
        let it = if t.is_int() { t.clone() } else { self.int_ty() };
        let k = self.p.range(2, 4) as usize;
        let mut fs: Vec<String> = vec![];
        for _ in 0..k {
            match self.fallible(&it) {
                Some(f) => {
                    if !fs.contains(&f) {
                        fs.push(f)
                    }
                }
                None => break,
            }
        }
        if fs.len() < 2 {
            return self.expr(t, 0);
        }
        let fold = |xs: &[String], op: &str| xs.join(&format!(" {op} "));
        let mut pa = fs.clone();
        let mut pb = fs.clone();
        self.p.shuffle(&mut pa);
        self.p.shuffle(&mut pb);
        if pa == pb {
            pb.reverse();
        }
        if self.p.chance(1, 4) {
            pb.pop();
        }
        if self.p.chance(1, 4) {
            if let Some(extra) = self.fallible(&it) {
                pa.push(extra);
            }
        }
        let op = *self.p.pick(&["^", "&", "|"]);
        let c0 = self.cond(&Ty::Bool, d.min(1));
        let x = self.fresh("s");
        let first = if self.p.chance(3, 4) {
            format!("if {c0} {{ {} }} else {{ {} }}", fold(&pa, op), fold(&pb, op))
        } else {
            format!("match {c0} {{ true => {}, false => {} }}", fold(&pa, op), fold(&pb, op))
        };
        // reuse: each shared expression again, each under its own condition
        let mut reuse = fs[fs.len() - 1].clone();
        for f in fs[..fs.len() - 1].iter().rev() {
            let c = self.cond(&Ty::Bool, d.min(1));
            reuse = format!("if {c} {{ {f} }} else {{ {reuse} }}");
        }
        let y = self.fresh("s");
        let combined = format!("({x} {op} {y})");
        let tail = if *t == it {
            combined
        } else {
            self.vars.push((x.clone(), it.clone(), false));
            self.vars.push((y.clone(), it.clone(), false));
            let e = match t {
                Ty::Bool => format!("({combined} == {})", self.lit(&it)),
                _ => self.expr(t, d.min(1)),
            };
            self.vars.pop();
            self.vars.pop();
            e
        };
        format!("{{ let {x} = {first}; let {y} = {reuse}; {tail} }}")
    }

    // --------------------------------------------------------------------------------------
    // statements
    // --------------------------------------------------------------------------------------

    fn stmts(&mut self, n: usize, depth: u32, out: &mut Vec<String>, indent: &str) {
        for _ in 0..n {
            match self.p.below(10) {
                0..=3 => {
                    let t = self.any_ty(1);
                    let e = self.expr_top(&t, depth);
                    let v = self.fresh("v");
                    let m = self.p.chance(1, 2);
                    let ann = if self.p.chance(1, 3) { format!(": {}", tyname(&t, self)) } else { String::new() };
                    out.push(format!("{indent}let {}{v}{ann} = {e};", if m { "mut " } else { "" }));
                    self.vars.push((v, t, m));
                }
                4 | 5 => {
                    let muts: Vec<(String, Ty)> =
                        self.vars.iter().filter(|(_, _, m)| *m).map(|(n, t, _)| (n.clone(), t.clone())).collect();
                    if muts.is_empty() {
                        continue;
                    }
                    if muts.len() >= 2 && self.p.chance(1, 2) {
                        // several variables assigned in both branches, in different orders:
                        // exercises the order in which merged environments are walked
                        let mut chosen = muts.clone();
                        self.p.shuffle(&mut chosen);
                        chosen.truncate(self.p.range(2, 3) as usize);
                        let mut assigns = |g: &mut Gen, order: &[(String, Ty)]| -> String {
                            order.iter().map(|(v, t)| format!("{v} = {};", g.expr(t, depth.min(1)))).collect::<Vec<_>>().join(" ")
                        };
                        let a = assigns(self, &chosen);
                        chosen.reverse();
                        let b = assigns(self, &chosen);
                        if self.p.chance(2, 3) {
                            let c = self.cond(&Ty::Bool, 1);
                            out.push(format!("{indent}if {c} {{ {a} }} else {{ {b} }}"));
                        } else {
                            let sc = self.cond(&Ty::U8, 1);
                            let c3 = assigns(self, &chosen);
                            out.push(format!("{indent}match {sc} {{ 0 => {{ {a} }}, 1..9 => {{ {b} }}, _ => {{ {c3} }} }}"));
                        }
                        continue;
                    }
                    let (v, t) = self.p.pick(&muts).clone();
                    if self.p.chance(1, 2) {
                        // conditional assignment in both branches: exercises mux_envs + mux_panic
                        let c = self.cond(&Ty::Bool, 1);
                        let a = self.expr(&t, depth);
                        let b = self.expr(&t, depth);
                        out.push(format!("{indent}if {c} {{ {v} = {a}; }} else {{ {v} = {b}; }}"));
                    } else if t.is_int() && self.p.chance(1, 2) {
                        let op = *self.p.pick(&["+=", "-=", "^=", "&=", "|="]);
                        let e = self.expr(&t, depth.min(1));
                        out.push(format!("{indent}{v} {op} {e};"));
                    } else {
                        let e = self.expr(&t, depth);
                        out.push(format!("{indent}{v} = {e};"));
                    }
                }
                6 => {
                    // for loop over a literal range or an array, accumulating
                    let muts: Vec<(String, Ty)> = self
                        .vars
                        .iter()
                        .filter(|(_, t, m)| *m && t.is_int())
                        .map(|(n, t, _)| (n.clone(), t.clone()))
                        .collect();
                    if muts.is_empty() {
                        continue;
                    }
                    let (acc, t) = self.p.pick(&muts).clone();
                    let arrs: Vec<(String, Ty)> = self
                        .vars
                        .iter()
                        .filter_map(|(n, vt, _)| match vt {
                            Ty::Arr(e, _) => Some((n.clone(), (**e).clone())),
                            _ => None,
                        })
                        .collect();
                    if !arrs.is_empty() && self.p.chance(1, 2) {
                        let (arr, et) = self.p.pick(&arrs).clone();
                        let i = self.fresh("e");
                        self.vars.push((i.clone(), et, false));
                        let e = self.expr(&t, depth.min(1));
                        self.vars.pop();
                        out.push(format!("{indent}for {i} in {arr} {{ {acc} = {acc} ^ {e}; }}"));
                    } else {
                        let i = self.fresh("i");
                        let hi = self.p.range(1, 3);
                        self.vars.push((i.clone(), Ty::Usize, false));
                        let e = self.expr(&t, depth.min(1));
                        self.vars.pop();
                        out.push(format!("{indent}for {i} in 0usize..{hi}usize {{ {acc} = {acc} ^ {e}; }}"));
                    }
                }
                7 => {
                    // array / tuple element update
                    let arrs: Vec<(String, Ty, usize)> = self
                        .vars
                        .iter()
                        .filter_map(|(n, vt, m)| match vt {
                            Ty::Arr(e, len) if *m => Some((n.clone(), (**e).clone(), *len)),
                            _ => None,
                        })
                        .collect();
                    if arrs.is_empty() {
                        continue;
                    }
                    let (arr, et, len) = self.p.pick(&arrs).clone();
                    let idxs = self.paths_of(&Ty::Usize);
                    let idx = if !idxs.is_empty() && self.p.chance(1, 2) {
                        self.p.pick(&idxs).clone()
                    } else {
                        format!("{}", self.p.usize_below(len))
                    };
                    let e = self.expr(&et, depth.min(1));
                    out.push(format!("{indent}{arr}[{idx}] = {e};"));
                }
                _ => {
                    let t = self.int_ty();
                    let e = self.share_reuse(&t, depth.min(1));
                    let v = self.fresh("v");
                    out.push(format!("{indent}let {v} = {e};"));
                    self.vars.push((v, t, false));
                }
            }
        }
    }

    // --------------------------------------------------------------------------------------
    // items
    // --------------------------------------------------------------------------------------

    fn gen_consts(&mut self, out: &mut Vec<String>) {
        let n = match self.p.below(4) {
            0 => 0,
            1 => self.p.range(1, 2),
            _ => self.p.range(2, 5),
        } as usize;
        let mut names: Vec<&str> = CONST_NAMES.to_vec();
        self.p.shuffle(&mut names);
        // one type per chain, as the checker requires
        let chain_ty = match self.p.below(4) {
            0 | 1 => Ty::Usize,
            2 => Ty::U8,
            _ => self.scalar_ty(),
        };
        for name in names.iter().take(n) {
            let t = if self.p.chance(3, 4) { chain_ty.clone() } else { self.scalar_ty() };
            let same: Vec<String> = self.consts.iter().filter(|c| c.ty == t).map(|c| c.name.clone()).collect();
            let tn = tyname(&t, self);
            let ext = |g: &mut Gen| format!("{}::{}", g.p.pick(PARTIES), g.p.pick(EXT_NAMES));
            let atom = |g: &mut Gen, same: &Vec<String>| -> String {
                match g.p.below(3) {
                    0 if !same.is_empty() => g.p.pick(same).clone(),
                    1 => ext(g),
                    _ => match &t {
                        Ty::Usize => format!("{}usize", g.p.range(1, 3)),
                        other => g.lit(other),
                    },
                }
            };
            let value = match self.p.below(8) {
                0 | 1 if !same.is_empty() => self.p.pick(&same).clone(),
                2 => ext(self),
                3 => match &t {
                    Ty::Usize => format!("{}usize", self.p.range(1, 3)),
                    other => self.lit(other),
                },
                4 if t == Ty::Usize => format!("max({}, {})", atom(self, &same), atom(self, &same)),
                5 if t == Ty::Usize => format!("min({}, {})", atom(self, &same), atom(self, &same)),
                6 if t == Ty::Usize => format!("{} + {}", atom(self, &same), atom(self, &same)),
                _ => {
                    if !same.is_empty() && self.p.chance(2, 3) {
                        self.p.pick(&same).clone()
                    } else {
                        ext(self)
                    }
                }
            };
            out.push(format!("const {name}: {tn} = {value};"));
            self.consts.push(ConstItem { name: name.to_string(), ty: t });
        }
    }

    fn gen_types(&mut self, out: &mut Vec<String>) {
        let ns = self.p.below(3) as usize;
        let mut names: Vec<&str> = STRUCT_NAMES.to_vec();
        self.p.shuffle(&mut names);
        for name in names.iter().take(ns) {
            let nf = self.p.range(1, 3) as usize;
            let mut fns: Vec<&str> = FIELD_NAMES.to_vec();
            self.p.shuffle(&mut fns);
            let fields: Vec<(String, Ty)> = fns.iter().take(nf).map(|f| (f.to_string(), self.any_ty(1))).collect();
            let body: Vec<String> = fields.iter().map(|(f, t)| format!("    {f}: {},", tyname(t, self))).collect();
            out.push(format!("struct {name} {{\n{}\n}}", body.join("\n")));
            self.structs.push(StructDef { name: name.to_string(), fields });
        }
        let ne = self.p.below(3) as usize;
        let mut names: Vec<&str> = ENUM_NAMES.to_vec();
        self.p.shuffle(&mut names);
        for name in names.iter().take(ne) {
            let nv = self.p.range(2, 3) as usize;
            let mut vns: Vec<&str> = VARIANT_NAMES.to_vec();
            self.p.shuffle(&mut vns);
            let variants: Vec<(String, Vec<Ty>)> = vns
                .iter()
                .take(nv)
                .map(|v| {
                    let np = self.p.below(3) as usize;
                    (v.to_string(), (0..np).map(|_| self.scalar_ty()).collect())
                })
                .collect();
            let body: Vec<String> = variants
                .iter()
                .map(|(v, ps)| {
                    if ps.is_empty() {
                        format!("    {v},")
                    } else {
                        format!("    {v}({}),", ps.iter().map(|t| tyname(t, self)).collect::<Vec<_>>().join(", "))
                    }
                })
                .collect();
            out.push(format!("enum {name} {{\n{}\n}}", body.join("\n")));
            self.enums.push(EnumDef { name: name.to_string(), variants });
        }
    }

    fn gen_fn(&mut self, name: &str, is_pub: bool, params: Vec<Ty>, ret: Ty, nstmts: usize, depth: u32) -> String {
        let saved_vars = std::mem::take(&mut self.vars);
        let mut ps = vec![];
        for (i, t) in params.iter().enumerate() {
            let pn = format!("p{i}");
            let m = self.p.chance(1, 4);
            ps.push(format!("{}{pn}: {}", if m { "mut " } else { "" }, tyname(t, self)));
            self.vars.push((pn, t.clone(), m));
        }
        let mut body = vec![];
        if nstmts > 0 && self.p.chance(1, 2) {
            for _ in 0..self.p.range(2, 3) {
                let t = self.scalar_ty();
                let v = self.fresh("m");
                let e = self.expr(&t, 1);
                body.push(format!("    let mut {v} = {e};"));
                self.vars.push((v, t, true));
            }
        }
        // join loops (main only): `for jr in join_iter(rows0, rows1)` whose body assigns several
        // outer variables in one iteration (the per-element merge of environments)
        let mut join_stmt: Option<String> = None;
        if name == "main" && self.p.chance(1, 4) {
            let vt = self.int_ty();
            let (n0, n1) = (self.p.range(1, 3) as usize, self.p.range(1, 3) as usize);
            let rt = |n: usize, g: &Gen| format!("[(u8, {}); {}]", tyname(&vt, g), n);
            ps.push(format!("jrows0: {}", rt(n0, self)));
            ps.push(format!("jrows1: {}", rt(n1, self)));
            let nacc = self.p.range(2, 4) as usize;
            let mut accs = vec![];
            for _ in 0..nacc {
                let v = self.fresh("acc");
                let e = self.lit(&vt);
                body.push(format!("    let mut {v} = {e};"));
                self.vars.push((v.clone(), vt.clone(), true));
                accs.push(v);
            }
            let mut order = accs.clone();
            self.p.shuffle(&mut order);
            let updates: Vec<String> = order
                .iter()
                .map(|a| {
                    let rhs = match self.p.below(4) {
                        0 => format!("{a} + ja"),
                        1 => format!("{a} ^ jb"),
                        2 => format!("({a} ^ ja) + jb"),
                        _ => "ja - jb".to_string(),
                    };
                    format!("{a} = {rhs};")
                })
                .collect();
            join_stmt = Some(format!("    for jr in join_iter(jrows0, jrows1) {{ let ((_, ja), (_, jb)) = jr; {} }}", updates.join(" ")));
        }
        let before = body.len();
        self.stmts(nstmts, depth, &mut body, "    ");
        if let Some(js) = join_stmt {
            let at = before + self.p.usize_below(body.len() - before + 1);
            body.insert(at, js);
        }
        let r = self.expr_top(&ret, depth);
        body.push(format!("    {r}"));
        self.vars = saved_vars;
        format!(
            "{}fn {name}({}) -> {} {{\n{}\n}}",
            if is_pub { "pub " } else { "" },
            ps.join(", "),
            tyname(&ret, self),
            body.join("\n")
        )
    }

    pub fn program(&mut self) -> String {
        let mut items = vec![];
        self.gen_consts(&mut items);
        self.gen_types(&mut items);
        // helpers are generated first (they may only call earlier helpers: no recursion)
        let nh = self.p.below(3) as usize;
        let mut hn: Vec<&str> = HELPER_NAMES.to_vec();
        self.p.shuffle(&mut hn);
        let mut helper_src = vec![];
        for name in hn.iter().take(nh) {
            let np = self.p.range(1, 3) as usize;
            let params: Vec<Ty> = (0..np).map(|_| self.scalar_ty()).collect();
            let ret = self.scalar_ty();
            let saved_heavy = self.heavy;
            self.heavy = 2;
            let ns = self.p.below(2) as usize;
            let src = self.gen_fn(name, false, params.clone(), ret.clone(), ns, 2);
            self.heavy = saved_heavy;
            helper_src.push(src);
            self.helpers.push(Helper { name: name.to_string(), params, ret });
            self.used_helpers.push(false);
        }
        // main
        let np = self.p.range(2, 5) as usize;
        let mut params: Vec<Ty> = vec![];
        // bias: at least two ints of one type and two bools, so SHARE/REUSE has material
        let it = self.int_ty();
        params.push(it.clone());
        params.push(it.clone());
        params.push(Ty::Bool);
        for _ in 0..np {
            let t = match self.p.below(8) {
                0 => Ty::Usize,
                1 => Ty::Arr(Box::new(it.clone()), self.p.range(2, 3) as usize),
                2 => Ty::Bool,
                _ => self.any_ty(1),
            };
            params.push(t);
        }
        self.p.shuffle(&mut params);
        let ret = self.any_ty(1);
        let n = self.p.range(0, 4) as usize;
        // one program in twelve has no `main` at all (asking for it must then fail the same way everywhere)
        let main_name = if self.p.chance(1, 12) { "entry" } else { "main" };
        let main = self.gen_fn(main_name, true, params, ret, n, 3);
        let mut extra = vec![];
        if self.p.chance(1, 4) {
            let it2 = self.int_ty();
            let ret = self.scalar_ty();
            extra.push(self.gen_fn("second", true, vec![it2.clone(), it2, Ty::Bool, Ty::Bool], ret, 1, 2));
        }
        // unused private fns are a type error: call every unused helper from a dead `let` in a pub wrapper
        let mut wrapper = vec![];
        for (i, h) in self.helpers.clone().iter().enumerate() {
            if !self.used_helpers[i] {
                let args: Vec<String> = h.params.iter().map(|t| self.lit(t)).collect();
                wrapper.push(format!(
                    "pub fn use_{}(z: bool) -> {} {{\n    {}({})\n}}",
                    h.name,
                    tyname(&h.ret, self),
                    h.name,
                    args.join(", ")
                ));
            }
        }
        // item order is itself drawn: definition maps see different insertion orders
        let mut fns: Vec<String> = vec![];
        fns.extend(helper_src);
        fns.push(main);
        fns.extend(extra);
        fns.extend(wrapper);
        if self.p.chance(1, 2) {
            self.p.shuffle(&mut fns);
        }
        let mut all = items;
        if self.p.chance(1, 3) {
            // types after functions
            let (c, t): (Vec<String>, Vec<String>) = all.into_iter().partition(|s| s.starts_with("const"));
            all = c;
            all.extend(fns);
            all.extend(t);
        } else {
            all.extend(fns);
        }
        // one program in ten defines a top-level item twice (legal: the later definition wins)
        if self.p.chance(1, 10) && !all.is_empty() {
            let i = self.p.usize_below(all.len());
            let dup = all[i].clone();
            let at = self.p.usize_below(all.len() + 1);
            all.insert(at, dup);
        }
        // trivia: leading blank lines and comments, multi-line (and nested) block comments between
        // items; they shift every line number, and line numbers end up in the circuit (panic locations)
        if self.p.chance(1, 4) {
            let sep = *self.p.pick(&["\n\n", "\n\n/* note:\n * spans\n * lines\n */\n", "\n/* a /* nested\n comment */\n b */\n\n", "\n// line comment\n"]);
            let head = *self.p.pick(&["\n", "\n\n\n", "// header\n", "/* header\n   spanning\n   lines */\n", "\n/* x\n y */\n", " \n\t\n/* x\n\n\n y */ "]);
            return format!("{head}{}\n", all.join(sep));
        }
        all.join("\n\n") + "\n"
    }
}

/// A program with several independent type errors in different items (verdict invariance:
/// definition-map iteration order decides which error is found first).
pub fn ill_typed(p: &mut Prng) -> String {
    let mut g = Gen::new(p);
    let mut src = g.program();
    let errs = [
        "\nfn unused_one(a: u8) -> u8 { a }\n",
        "\npub fn bad_ret(a: u8) -> bool { a }\n",
        "\nstruct Broken { f: Missing }\n",
        "\nenum Dup { A, A }\n",
        "\npub fn bad_call(a: u8) -> u8 { nothere(a) }\n",
        "\npub fn bad_arith(a: u8, b: bool) -> u8 { a + b }\n",
        "\nconst ZZ: u8 = 3u16;\n",
        "\npub fn dup_param(a: u8, a: u8) -> u8 { a }\n",
        // a public function without parameters, reached from another public function
        "\npub fn no_params() -> u8 { 7u8 }\npub fn calls_no_params(a: u8) -> u8 { a ^ no_params() }\n",
        "\npub fn lonely() -> bool { true }\n",
    ];
    // one to four independent errors; with exactly one, acceptance hinges on that single rule
    let n = g.p.range(1, 4) as usize;
    let mut idx: Vec<usize> = (0..errs.len()).collect();
    g.p.shuffle(&mut idx);
    for &i in idx.iter().take(n) {
        if g.p.chance(1, 2) {
            src.push_str(errs[i]);
        } else {
            src = format!("{}{}", errs[i], src);
        }
    }
    src
}

pub fn program(p: &mut Prng) -> String {
    Gen::new(p).program()
}

/// Programs whose shapes come from `usize` constants supplied from outside: arrays of constant
/// size in struct fields, parameters, tuples, nested arrays, repeat expressions and loops.
pub fn const_sized_program(p: &mut Prng) -> String {
    let ty = *p.pick(&["u8", "u16", "bool", "i8"]);
    let zero = match ty {
        "bool" => "false".to_string(),
        t => format!("0{t}"),
    };
    let fold = if ty == "bool" { "^" } else { *p.pick(&["^", "&", "|"]) };
    let mut out = String::from("const ROWS: usize = PARTY_0::ROWS;\n");
    let second = p.chance(1, 2);
    if second {
        out.push_str(*p.pick(&["const COLS: usize = PARTY_1::COLS;\n", "const COLS: usize = max(PARTY_1::COLS, ROWS);\n", "const COLS: usize = ROWS + PARTY_1::COLS;\n"]));
    }
    let cols = if second { "COLS" } else { "ROWS" };
    match p.below(6) {
        0 => out.push_str(&format!("\nstruct Batch {{\n    bias: {ty},\n    items: [{ty}; ROWS],\n}}\n\npub fn main(x: {ty}, y: {ty}) -> {ty} {{\n    let batch = Batch {{ bias: x, items: [x; ROWS] }};\n    let pair = (batch, y);\n    pair.1\n}}\n")),
        1 => out.push_str(&format!("\nstruct Batch {{\n    bias: {ty},\n    items: [{ty}; ROWS],\n}}\n\npub fn main(batch: Batch, y: {ty}) -> {ty} {{\n    let mut acc = batch.bias {fold} y;\n    for item in batch.items {{\n        acc = acc {fold} item;\n    }}\n    acc\n}}\n")),
        2 => out.push_str(&format!("\npub fn main(a: [{ty}; ROWS], b: [{ty}; {cols}], y: {ty}) -> ({ty}, [{ty}; ROWS]) {{\n    let mut acc = y;\n    for v in b {{\n        acc = acc {fold} v;\n    }}\n    (acc, a)\n}}\n")),
        3 => out.push_str(&format!("\npub fn main(m: [[{ty}; {cols}]; ROWS], y: {ty}) -> {ty} {{\n    let mut acc = y;\n    for row in m {{\n        for v in row {{\n            acc = acc {fold} v;\n        }}\n    }}\n    acc\n}}\n")),
        4 => out.push_str(&format!("\nstruct Inner {{\n    v: [{ty}; {cols}],\n}}\n\nstruct Outer {{\n    first: Inner,\n    tag: bool,\n    rest: [Inner; ROWS],\n}}\n\npub fn main(o: Outer, y: {ty}) -> ({ty}, bool) {{\n    let mut acc = y;\n    for i in o.rest {{\n        for v in i.v {{\n            acc = acc {fold} v;\n        }}\n    }}\n    (acc, o.tag)\n}}\n")),
        _ => out.push_str(&format!("\npub fn main(x: {ty}, c: bool) -> ([{ty}; ROWS], {ty}) {{\n    let mut a = [x; ROWS];\n    let t = (a, {zero}, [c; {cols}]);\n    if c {{\n        a[0] = {zero};\n    }}\n    (a, t.1)\n}}\n")),
    }
    out
}

pub const WORD_MARKER: &str = "// word size";

/// Small programs around what depends on the machine word if the compiler is careless: 64-bit
/// literals above 2^32, `usize` values, shifts by constants, array indices, ranges, enum tags.
pub fn word_program(p: &mut Prng) -> String {
    let big = *p.pick(&["4294967296", "4294967297", "5000000000", "1099511627776", "9223372036854775807", "18446744073709551615", "4294967295"]);
    let body = match p.below(10) {
        // enums with 2, 4, 8 variants: tag widths at the powers of two
        9 => {
            let n = *p.pick(&[2usize, 4, 8]);
            let vs: Vec<String> = (0..n).map(|i| format!("    V{i},")).collect();
            let arms: Vec<String> = (0..n).map(|i| format!("        E::V{i} => x ^ {}u8,", i + 1)).collect();
            format!("enum E {{\n{}\n}}\n\npub fn main(e: E, x: u8) -> (u8, E) {{\n    let r = match e {{\n{}\n    }};\n    (r, e)\n}}", vs.join("\n"), arms.join("\n"))
        }
        // redundancy: what the library's DEFAULT options (duplicate gates optimised) decide
        7 => "pub fn main(x: u8, y: u8) -> (u8, u8) {\n    (x + y, y + x)\n}".to_string(),
        8 => "pub fn main(x: u16, y: u16, c: bool) -> u16 {\n    let a = x ^ y;\n    let b = y ^ x;\n    if c { (a & x) + (x & b) } else { (a & y) + (b & y) }\n}".to_string(),
        0 => format!("pub fn main(x: u64) -> u64 {{\n    x + {big}u64\n}}"),
        1 => format!("pub fn main(x: u64, y: u64) -> bool {{\n    (x ^ {big}u64) > y\n}}"),
        2 => format!("pub fn main(x: i64) -> i64 {{\n    x - {}i64\n}}", if big.len() > 19 || big == "18446744073709551615" { "9223372036854775807" } else { big }),
        3 => "pub fn main(x: u64) -> u64 {\n    (x >> 33u8) ^ (x << 40u8)\n}".to_string(),
        4 => "pub fn main(x: usize, y: usize) -> usize {\n    x + y + 4000000000usize\n}".to_string(),
        5 => format!("enum E {{\n    A,\n    B(u64),\n    C,\n}}\n\npub fn main(x: u64, c: bool) -> u64 {{\n    let e = if c {{ E::B(x) }} else {{ E::C }};\n    match e {{\n        E::A => 0u64,\n        E::B(v) => v ^ {big}u64,\n        E::C => {big}u64,\n    }}\n}}"),
        _ => format!("pub fn main(x: u64) -> u64 {{\n    match x {{\n        {big}u64 => 1u64,\n        0u64..4294967296u64 => 2u64,\n        _ => x,\n    }}\n}}"),
    };
    format!("{WORD_MARKER}\n{body}\n")
}

/// Output layouts: a chain of m one-gate `let`s and a tuple of n of them as the result, chosen so
/// that the result wires are exactly the circuit's last wires in order, or *nearly* so (one of
/// the middle ones computed earlier, two swapped, reversed, rotated, one repeated): what the
/// exporter's renumbering (and any shortcut around it) has to get right.
pub fn layout_program(p: &mut Prng) -> String {
    let n = p.range(3, 6) as usize;
    let m = n + p.below(5) as usize;
    let ins = ["a", "b", "c", "d"];
    let mut out = String::from("pub fn main(a: bool, b: bool, c: bool, d: bool) -> (");
    out.push_str(&vec!["bool"; n].join(", "));
    out.push_str(") {\n");
    for i in 0..m {
        let op = if (i + p.below(2) as usize) % 2 == 0 { "^" } else { "&" };
        if i == 0 {
            out.push_str(&format!("    let v0 = a {op} b;\n"));
        } else {
            let other = if i >= 2 && p.chance(1, 3) { format!("v{}", p.usize_below(i - 1)) } else { ins[(i + 1) % 4].to_string() };
            out.push_str(&format!("    let v{i} = v{} {op} {other};\n", i - 1));
        }
    }
    let tail: Vec<usize> = (m - n..m).collect();
    let mut o = tail.clone();
    match p.below(7) {
        0 => {}
        1 if m > n => {
            let k = 1 + p.usize_below(n - 2);
            o[k] = p.usize_below(m - n);
        }
        2 if n >= 4 => {
            let k = 1 + p.usize_below(n - 3);
            o.swap(k, k + 1);
        }
        3 => o.reverse(),
        4 => o.rotate_left(1),
        5 => {
            let k = 1 + p.usize_below(n - 2);
            o[k] = o[n - 1];
        }
        _ => {
            for x in o.iter_mut().take(n - 1) {
                *x = p.usize_below(m);
            }
        }
    }
    out.push_str(&format!("    ({})\n}}\n", o.iter().map(|i| format!("v{i}")).collect::<Vec<_>>().join(", ")));
    out
}

/// One *count* of the program blown up to 65..260 (a scope with that many bindings, that many
/// functions, struct fields, constants, enum variants and match arms, parameters): whatever the
/// compiler does differently "from N items on" happens here.
pub fn scaled_program(p: &mut Prng) -> String {
    let n = *p.pick(&[65usize, 66, 70, 80, 100, 128, 129, 200, 257, 260]);
    let pick_some = |p: &mut Prng, k: usize| -> Vec<usize> {
        let mut v: Vec<usize> = (0..n).collect();
        p.shuffle(&mut v);
        v.truncate(k.min(n));
        v
    };
    let mut out = String::new();
    match p.below(6) {
        0 => {
            // many bindings in one scope, two branches that change different subsets of them
            out.push_str("pub fn main(a: u8, b: u8, c: bool, d: bool) -> u8 {\n");
            for i in 0..n {
                out.push_str(&format!("    let mut v{i} = a ^ {}u8;\n", i % 250));
            }
            for cond in ["c", "d"] {
                out.push_str(&format!("    if {cond} {{\n"));
                let k = p.range(2, 12) as usize;
                for i in pick_some(p, k) {
                    out.push_str(&format!("        v{i} = v{i} & (b ^ {}u8);\n", (2 * i + 1) % 250));
                }
                out.push_str("    } else {\n");
                let k = p.range(1, 6) as usize;
                for i in pick_some(p, k) {
                    out.push_str(&format!("        v{i} = v{i} ^ b;\n"));
                }
                out.push_str("    }\n");
            }
            out.push_str("    let mut r = v0;\n");
            for i in 1..n {
                out.push_str(&format!("    r = r ^ v{i};\n"));
            }
            out.push_str("    r\n}\n");
        }
        1 => {
            // many functions
            for i in 0..n {
                out.push_str(&format!("fn h{i}(x: u8) -> u8 {{\n    x ^ {}u8\n}}\n\n", i % 250));
            }
            out.push_str("pub fn main(a: u8, c: bool) -> u8 {\n    let mut r = a;\n");
            for i in 0..n {
                if i % 7 == 3 {
                    out.push_str(&format!("    if c {{ r = h{i}(r); }} else {{ r = r + 1u8; }}\n"));
                } else {
                    out.push_str(&format!("    r = h{i}(r);\n"));
                }
            }
            out.push_str("    r\n}\n");
        }
        2 => {
            // a struct with many fields, updated under a condition
            out.push_str("struct Big {\n");
            for i in 0..n {
                out.push_str(&format!("    f{i}: u8,\n"));
            }
            out.push_str("}\n\npub fn main(a: u8, b: u8, c: bool) -> u8 {\n    let mut s = Big {\n");
            for i in 0..n {
                out.push_str(&format!("        f{i}: a ^ {}u8,\n", i % 250));
            }
            out.push_str("    };\n    if c {\n");
            for i in pick_some(p, 5) {
                out.push_str(&format!("        s.f{i} = s.f{i} & b;\n"));
            }
            out.push_str("    } else {\n");
            for i in pick_some(p, 3) {
                out.push_str(&format!("        s.f{i} = s.f{i} ^ b;\n"));
            }
            out.push_str("    }\n    let mut r = 0u8;\n");
            for i in 0..n {
                out.push_str(&format!("    r = r ^ s.f{i};\n"));
            }
            out.push_str("    r\n}\n");
        }
        3 => {
            // many constants
            for i in 0..n {
                out.push_str(&format!("const K{i}: u8 = {}u8;\n", i % 250));
            }
            out.push_str("\npub fn main(a: u8, c: bool) -> u8 {\n    let mut r = a;\n");
            for i in 0..n {
                if i % 9 == 4 {
                    out.push_str(&format!("    if c {{ r = r ^ K{i}; }} else {{ r = r & K{i}; }}\n"));
                } else {
                    out.push_str(&format!("    r = r ^ K{i};\n"));
                }
            }
            out.push_str("    r\n}\n");
        }
        4 => {
            // an enum with many variants and a match with as many arms
            out.push_str("enum E {\n");
            for i in 0..n {
                out.push_str(&format!("    V{i},\n"));
            }
            out.push_str("}\n\npub fn main(e: E, a: u8) -> u8 {\n    match e {\n");
            for i in 0..n {
                out.push_str(&format!("        E::V{i} => a ^ {}u8,\n", i % 250));
            }
            out.push_str("    }\n}\n");
        }
        _ => {
            // many parameters (= many parties)
            let params: Vec<String> = (0..n).map(|i| format!("p{i}: {}", if i % 3 == 0 { "bool" } else { "u8" })).collect();
            out.push_str(&format!("pub fn main({}) -> u8 {{\n    let mut r = 0u8;\n", params.join(", ")));
            for i in 0..n {
                if i % 3 == 0 {
                    out.push_str(&format!("    if p{i} {{ r = r + 1u8; }}\n"));
                } else {
                    out.push_str(&format!("    r = r ^ p{i};\n"));
                }
            }
            out.push_str("    r\n}\n");
        }
    }
    out
}

/// A program with one party so wide (just under 10^k bits) that the wires of its hundred-odd
/// gates straddle the decimal boundary 10^k: number formatting and parsing at every width.
pub fn wide_program(p: &mut Prng, k: u32) -> String {
    let target = 10u64.pow(k);
    // inputs = 8 * n + 16; the first gate's wire is `inputs`: land 0..160 wires below the boundary
    let n = (target - 16 - p.below(160)) / 8;
    let op = *p.pick(&["+", "-", "^", "&"]);
    format!("pub fn main(a: [u8; {n}], b: u8, c: u8) -> (u8, bool, u8) {{\n    (b {op} c, a[0] > a[{}], a[{}] ^ b)\n}}\n", n - 1, n / 2)
}

/// Marker that makes `analyse` draw the values of external constants from the boundary values of
/// their types instead of small numbers (which array sizes need).
pub const WIDE_CONSTS_MARKER: &str = "// wide constants";

/// Boundary values of an integer type, as i64 bit patterns (u64::MAX is -1).
pub fn boundary_values(ty: &str) -> Vec<i64> {
    match ty {
        "u8" => vec![0, 1, 2, 127, 128, 254, 255],
        "u16" => vec![0, 1, 255, 256, 32767, 32768, 65534, 65535],
        "u32" => vec![0, 1, 65536, (1 << 31) - 1, 1 << 31, u32::MAX as i64 - 1, u32::MAX as i64],
        "u64" | "usize" => vec![0, 1, 2, u32::MAX as i64, 1 << 32, i64::MAX, i64::MIN, -2, -1],
        "i8" => vec![-128, -127, -1, 0, 1, 126, 127],
        "i16" => vec![-32768, -1, 0, 1, 32767],
        "i32" => vec![i32::MIN as i64, i32::MIN as i64 + 1, -1, 0, 1, i32::MAX as i64 - 1, i32::MAX as i64],
        "i64" => vec![i64::MIN, i64::MIN + 1, -1, 0, 1, i64::MAX - 1, i64::MAX],
        _ => vec![0, 1],
    }
}

/// Constant arithmetic at the boundaries of the number types: chains of `+`, `-`, `max`, `min`
/// over boundary literals, external constants (whose values are boundary values too) and earlier
/// constants; the constants are only used as values, never as sizes.
pub fn const_arith_program(p: &mut Prng) -> String {
    let ty = *p.pick(&["u64", "u64", "usize", "i64", "u32", "i32", "u16", "u8", "i8"]);
    let unsigned = ty.starts_with('u');
    let n = p.range(1, 5) as usize;
    let mut out = vec![WIDE_CONSTS_MARKER.to_string()];
    let mut names: Vec<String> = vec![];
    let lit = |p: &mut Prng| -> String {
        let v = *p.pick(&boundary_values(ty));
        if unsigned {
            format!("{}{ty}", v as u64 & if ty == "u64" || ty == "usize" { u64::MAX } else { u64::MAX >> (64 - ty[1..].parse::<u32>().unwrap_or(64)) })
        } else if v < 0 {
            // negative literals only come from outside (external constants)
            format!("{}{ty}", (v.unsigned_abs() - 1).min(i64::MAX as u64))
        } else {
            format!("{v}{ty}")
        }
    };
    for k in 0..n {
        let name = CONST_NAMES[k % CONST_NAMES.len()].to_string();
        let atom = |p: &mut Prng, names: &Vec<String>| -> String {
            // what the compiler supports today: earlier constants only in usize chains, signed
            // literals not at all (both panic, deterministically, in resolve_const_expr_*)
            match p.below(4) {
                0 if !names.is_empty() && ty == "usize" => p.pick(names).clone(),
                3 if unsigned => lit(p),
                _ => format!("{}::{}", p.pick(PARTIES), p.pick(EXT_NAMES)),
            }
        };
        let a = atom(p, &names);
        let b = atom(p, &names);
        let value = match p.below(8) {
            0..=3 => format!("{a} + {b}"),
            4 => format!("{a} - {b}"),
            5 => format!("max({a}, {b}) + {}", atom(p, &names)),
            6 => format!("min({a}, {b}) + {}", atom(p, &names)),
            _ => format!("{a} + {b} + {}", atom(p, &names)),
        };
        out.push(format!("const {name}: {ty} = {value};"));
        names.push(name);
    }
    let body = names.iter().fold("x".to_string(), |acc, n| format!("{acc} ^ {n}"));
    out.push(format!("pub fn main(x: {ty}) -> {ty} {{\n    {body}\n}}"));
    out.join("\n")
}

/// Small programs for the Bristol / circuit-corruption worlds: few inputs, few hundred gates,
/// biased to repeated outputs, constant outputs, outputs feeding later gates, several parties.
pub fn small_program(p: &mut Prng) -> String {
    let nparties = if p.chance(1, 8) { p.range(5, 7) } else { p.range(1, 4) } as usize;
    let tys = ["bool", "u8", "u8", "i8", "u16", "bool"];
    let mut params: Vec<(String, &str)> = (0..nparties).map(|i| (format!("p{i}"), *p.pick(&tys))).collect();
    // zero-width parties are legal: they contribute a party with 0 input bits
    if p.chance(1, 6) {
        let at = p.usize_below(params.len() + 1);
        params.insert(at, (format!("z{at}"), *p.pick(&["[u8; 0]", "()", "[bool; 0]"])));
    }
    let sig = params.iter().map(|(n, t)| format!("{n}: {t}")).collect::<Vec<_>>().join(", ");
    // integer view of every (non-empty) parameter in u8
    let vals: Vec<String> = params
        .iter()
        .filter(|(_, t)| !t.contains("; 0]") && *t != "()")
        .map(|(n, t)| if *t == "u8" { n.to_string() } else { format!("({n} as u8)") })
        .collect();
    let pickv = |p: &mut Prng| vals[p.usize_below(vals.len())].clone();
    let mut e = pickv(p);
    for _ in 0..p.below(3) {
        let op = *p.pick(&["^", "&", "|", "+", "-", "^", "&"]);
        e = format!("({e} {op} {})", pickv(p));
    }
    let b = format!("({} < {})", pickv(p), pickv(p));
    let b2 = format!("({} == {})", pickv(p), pickv(p));
    if p.chance(1, 5) {
        // a small DAG of Boolean gates g0..gk and a tuple of 2..5 of them, with repetition, in
        // ascending or random order: repeated outputs, outputs that feed later outputs, outputs
        // that already sit at the end of the wire list, non-output gates between outputs
        let k = p.range(2, 4) as usize;
        let bools: Vec<String> = params
            .iter()
            .filter(|(_, t)| !t.contains("; 0]") && *t != "()")
            .map(|(n, t)| if *t == "bool" { n.clone() } else { format!("({n} > {}{t})", p.below(3)) })
            .collect();
        let mut names: Vec<String> = vec![];
        let mut lets = String::new();
        for i in 0..k {
            let pick = |p: &mut Prng, names: &Vec<String>| -> String {
                if !names.is_empty() && p.chance(1, 2) {
                    names[p.usize_below(names.len())].clone()
                } else {
                    bools[p.usize_below(bools.len())].clone()
                }
            };
            let a = pick(p, &names);
            let b2 = pick(p, &names);
            let op = *p.pick(&["&", "^", "|", "&"]);
            lets.push_str(&format!("let g{i} = {a} {op} {b2}; "));
            names.push(format!("g{i}"));
        }
        let n = p.range(2, 5) as usize;
        let mut idx: Vec<usize> = (0..n).map(|_| p.usize_below(k)).collect();
        if p.chance(1, 2) {
            idx.sort();
        }
        if p.chance(1, 2) {
            // make sure the last gate is the last output
            *idx.last_mut().unwrap() = k - 1;
        }
        let ret = format!("({})", vec!["bool"; n].join(", "));
        let tuple = idx.iter().map(|i| format!("g{i}")).collect::<Vec<_>>().join(", ");
        return format!("pub fn main({sig}) -> {ret} {{\n    {lets}({tuple})\n}}\n");
    }
    let (ret, body) = match p.below(18) {
        0 => ("(u8, u8)".to_string(), format!("let v = {e}; (v, v)")),
        1 => ("[u8; 3]".to_string(), format!("let v = {e}; [v; 3]")),
        2 => ("(u8, bool, u8)".to_string(), format!("let v = {e}; (v, {b}, v ^ 255u8)")),
        3 => ("(bool, bool)".to_string(), format!("let c = {b}; (c, !c)")),
        4 => ("(u8, u8)".to_string(), format!("let v = {e}; let w = v & {}; (v, w)", pickv(p))),
        5 => ("bool".to_string(), "true".to_string()),
        6 => ("(u8, bool)".to_string(), format!("(0u8, {b})")),
        7 => ("u8".to_string(), format!("let v = {e}; v ^ v")),
        8 => ("(bool, u8, bool)".to_string(), format!("let c = {b}; (c, {e}, c)")),
        9 => ("u8".to_string(), e.clone()),
        10 => ("[bool; 2]".to_string(), format!("let c = {b}; [c, c]")),
        // repeated outputs in non-adjacent positions, several distinct repeated wires
        11 => ("(bool, bool, bool)".to_string(), format!("let c = {b}; let d = {b2}; (c, d, c)")),
        12 => ("(bool, bool, bool, bool, bool)".to_string(), format!("let c = {b}; let d = {b2}; (c, d, c, d, c)")),
        13 => ("(bool, bool, bool, bool)".to_string(), format!("let c = {b}; (true, c, true, false)")),
        14 => ("(u8, bool, u8, bool)".to_string(), format!("let v = {e}; let c = {b}; (v, c, v, c)")),
        // outputs that also feed later gates, whose results are outputs too
        15 => ("(u8, u8, u8)".to_string(), format!("let v = {e}; let w = v + 1u8; let x = w & v; (v, w, x)")),
        16 => ("(bool, ())".to_string(), format!("({b}, ())")),
        _ => ("(u8, u8, u8)".to_string(), format!("let v = {e}; (v, 7u8, v)")),
    };
    format!("pub fn main({sig}) -> {ret} {{\n    {body}\n}}\n")
}

/// Tiny circuits (a handful of gates besides the 161 panic outputs) for the complete sweeps of C16.
pub fn tiny_program(p: &mut Prng) -> String {
    let n = p.range(1, 3) as usize;
    let mut params: Vec<(String, &str)> = vec![];
    let mut wide = false;
    for i in 0..n {
        let t = if !wide && p.chance(1, 5) {
            wide = true;
            "u8"
        } else {
            "bool"
        };
        params.push((format!("p{i}"), t));
    }
    if p.chance(1, 8) {
        let at = p.usize_below(params.len() + 1);
        params.insert(at, (format!("z{at}"), *p.pick(&["()", "[bool; 0]"])));
    }
    let sig = params.iter().map(|(n, t)| format!("{n}: {t}")).collect::<Vec<_>>().join(", ");
    let bools: Vec<String> = params
        .iter()
        .filter_map(|(n, t)| match *t {
            "bool" => Some(n.clone()),
            "u8" => Some(format!("({n} > {}u8)", p.below(3))),
            _ => None,
        })
        .collect();
    if bools.is_empty() {
        return format!("pub fn main({sig}) -> bool {{\n    true\n}}\n");
    }
    let pick = |p: &mut Prng| bools[p.usize_below(bools.len())].clone();
    let mut expr = |p: &mut Prng| -> String {
        let a = pick(p);
        match p.below(6) {
            0 => a,
            1 => format!("!{a}"),
            2 => format!("({a} ^ {})", pick(p)),
            3 => format!("({a} & {})", pick(p)),
            4 => format!("({a} | {})", pick(p)),
            _ => format!("(if {a} {{ {} }} else {{ !{} }})", pick(p), pick(p)),
        }
    };
    let (ret, body) = match p.below(5) {
        0 | 1 => ("bool".to_string(), expr(p)),
        2 => ("(bool, bool)".to_string(), format!("({}, {})", expr(p), expr(p))),
        3 => ("[bool; 2]".to_string(), format!("let v = {}; [v, v]", expr(p))),
        _ => ("(bool, bool, bool)".to_string(), format!("let v = {}; (v, {}, v)", expr(p), expr(p))),
    };
    format!("pub fn main({sig}) -> {ret} {{\n    {body}\n}}\n")
}

/// Large circuits (10^5 .. 10^6 gates): several 64-bit multiplications / divisions. Exercises
/// behaviour that depends on table sizes, capacities and thresholds inside the circuit builder.
pub fn big_program(p: &mut Prng) -> String {
    big_program_with(p, false)
}

/// `ordered`: every binary operation takes its operands in parameter order (p0 op p1, never
/// p1 op p0), so the program contains (almost) no commuted duplicates — a homogeneous workload for
/// adaptive, statistics-driven heuristics.
/// Several million gates: beyond the 2^20 mark where table caps and similar thresholds sit.
pub fn huge_program(p: &mut Prng) -> String {
    let n = p.range(3, 4) as usize;
    let params: Vec<String> = (0..n).map(|i| format!("p{i}")).collect();
    let sig = params.iter().map(|n| format!("{n}: u64")).collect::<Vec<_>>().join(", ");
    let pick = |p: &mut Prng| params[p.usize_below(params.len())].clone();
    let mut terms = vec![];
    for _ in 0..p.range(44, 60) {
        let op = *p.pick(&["*", "/", "%", "/", "*"]);
        terms.push(format!("(({} {op} {}) {} {})", pick(p), pick(p), p.pick(&["/", "*", "%"]), pick(p)));
    }
    format!("pub fn main({sig}) -> u64 {{\n    {}\n}}\n", terms.join(" ^ "))
}

/// More than 2^24 gates without gate de-duplication (about 1 100 wide multiplications / divisions).
pub fn giant_program(p: &mut Prng) -> String {
    let params: Vec<String> = (0..6).map(|i| format!("p{i}")).collect();
    let sig = params.iter().map(|n| format!("{n}: u64")).collect::<Vec<_>>().join(", ");
    let pick = |p: &mut Prng| params[p.usize_below(params.len())].clone();
    let mut terms = vec![];
    for _ in 0..p.range(420, 460) {
        let op = *p.pick(&["*", "/", "%", "/", "*"]);
        terms.push(format!("(({} {op} {}) {} {})", pick(p), pick(p), p.pick(&["/", "*", "%"]), pick(p)));
    }
    format!("pub fn main({sig}) -> u64 {{\n    {}\n}}\n", terms.join(" ^ "))
}

pub fn big_program_with(p: &mut Prng, ordered: bool) -> String {
    let ty = *p.pick(&["u64", "u64", "i64", "u32"]);
    let n = p.range(2, 4) as usize;
    let params: Vec<String> = (0..n).map(|i| format!("p{i}")).collect();
    let sig = params.iter().map(|n| format!("{n}: {ty}")).collect::<Vec<_>>().join(", ");
    let pick = |p: &mut Prng| params[p.usize_below(params.len())].clone();
    // two size classes: ~10^5 gates, and several 10^5 gates (beyond typical table-size thresholds)
    let heavy = match p.below(3) {
        0 => p.range(10, 16),
        1 => p.range(4, 9),
        _ => p.range(1, 3),
    };
    let mut terms = vec![];
    for _ in 0..heavy {
        let op = *p.pick(&["*", "/", "%", "/"]);
        let mut a = pick(p);
        let mut b = pick(p);
        if ordered && a > b {
            std::mem::swap(&mut a, &mut b);
        }
        terms.push(if p.chance(1, 3) { format!("(({a} {op} {b}) {} {})", p.pick(&["/", "*", "%"]), pick(p)) } else { format!("({a} {op} {b})") });
    }
    let fold = *p.pick(&["^", "+", "&", "|"]);
    let body = terms.join(&format!(" {fold} "));
    format!("pub fn main({sig}) -> {ty} {{\n    {body}\n}}\n")
}

/// Deeply nested expressions: `((((x * 3u8) ^ 1u8) & 255u8) ...)`, `depth` levels, with constant
/// multiplications at the innermost level and sprinkled on the way out. Whatever the compiler
/// decides by looking at how deep it is (recursion depth, stack use) is decided here.
pub fn deep_program(p: &mut Prng, depth: usize) -> String {
    let ty = *p.pick(&["u8", "u8", "u16", "i8"]);
    let mut e = format!("(x * 3{ty})");
    for k in 0..depth {
        let lit = match ty {
            "i8" => format!("{}i8", k % 100),
            _ => format!("{}{ty}", k % 200),
        };
        e = match p.below(12) {
            // one more constant multiplication near the bottom only: each one compiles its operand
            // several times, so sprinkling them all the way up would be exponential
            0 if k < 3 => format!("({e} * 3{ty})"),
            1 => format!("({e} & y)"),
            2 | 3 => format!("({e} | {lit})"),
            4 => format!("(y ^ {e})"),
            _ => format!("({e} ^ {lit})"),
        };
    }
    format!("pub fn main(x: {ty}, y: {ty}) -> {ty} {{\n    {e}\n}}\n")
}
