//! Shared workload plumbing: program specs, simulated parties (threads with chosen hash keys),
//! the compile runner and structural circuit digests.

use crate::prng::{Digest, Prng};
use crate::seams;
use garble_lang::circuit::{Circuit, Gate};
use garble_lang::circuit_type::CircuitType;
use garble_lang::literal::Literal;
use garble_lang::register_circuit as rc;
use garble_lang::token::{SignedNumType, UnsignedNumType};
use garble_lang::{CircuitKind, CompileOptions, TypedProgram};
use serde::{Deserialize, Serialize};
use std::cell::RefCell;
use std::collections::{BTreeMap, HashMap};
use std::panic::{catch_unwind, AssertUnwindSafe};

#[derive(Clone, Debug, Serialize, Deserialize, PartialEq, Eq)]
pub struct ConstSpec {
    pub party: String,
    pub name: String,
    /// "bool", "usize", "u8" .. "u64", "i8" .. "i64"
    pub ty: String,
    pub val: i64,
}

#[derive(Clone, Debug, Serialize, Deserialize, PartialEq, Eq)]
pub struct ProgSpec {
    pub name: String,
    pub src: String,
    #[serde(default)]
    pub consts: Vec<ConstSpec>,
}

#[derive(Clone, Copy, Debug, Serialize, Deserialize, PartialEq, Eq)]
pub struct Opts {
    pub register: bool,
    pub dedup: bool,
}

impl Opts {
    pub fn all() -> [Opts; 4] {
        [
            Opts { register: false, dedup: true },
            Opts { register: true, dedup: true },
            Opts { register: false, dedup: false },
            Opts { register: true, dedup: false },
        ]
    }
    pub fn name(&self) -> String {
        format!("{}/{}", if self.register { "register" } else { "ssa" }, if self.dedup { "dedup" } else { "nodedup" })
    }
}

// ------------------------------------------------------------------------------------------
// panic capture
// ------------------------------------------------------------------------------------------

thread_local! {
    static LAST_PANIC: RefCell<Option<String>> = const { RefCell::new(None) };
}

/// Install a silent panic hook that records `message @ file:line` per thread.
pub fn install_panic_hook() {
    std::panic::set_hook(Box::new(|info| {
        let msg = if let Some(s) = info.payload().downcast_ref::<&str>() {
            (*s).to_string()
        } else if let Some(s) = info.payload().downcast_ref::<String>() {
            s.clone()
        } else {
            "<non-string panic>".to_string()
        };
        let loc = info
            .location()
            .map(|l| format!("{}:{}", l.file(), l.line()))
            .unwrap_or_else(|| "?".into());
        let mut m: String = msg.chars().take(160).collect();
        m.push_str(" @ ");
        m.push_str(&loc);
        let _ = LAST_PANIC.try_with(|p| {
            if let Ok(mut p) = p.try_borrow_mut() {
                *p = Some(m);
            }
        });
    }));
}

pub fn take_panic() -> String {
    LAST_PANIC
        .with(|p| p.borrow_mut().take())
        .unwrap_or_else(|| "<panic, no message>".into())
}

/// Run `f`, turning a panic into `Err(message @ location)`.
pub fn guarded<T>(f: impl FnOnce() -> T) -> Result<T, String> {
    match catch_unwind(AssertUnwindSafe(f)) {
        Ok(v) => Ok(v),
        Err(_) => Err(take_panic()),
    }
}

/// Strip line numbers / volatile details so that two panics of the same kind compare equal.
pub fn panic_site(msg: &str) -> String {
    match msg.rfind(" @ ") {
        Some(i) => msg[i + 3..].to_string(),
        None => msg.to_string(),
    }
}

// ------------------------------------------------------------------------------------------
// parties: one OS thread = one simulated process with chosen SipHash keys
// ------------------------------------------------------------------------------------------

#[derive(Clone, Copy, Debug, Serialize, Deserialize, PartialEq, Eq)]
pub struct Keys {
    pub k0: u64,
    pub k1: u64,
    /// number of maps the "process" created before the operation (key-counter drift)
    pub drift: u32,
}

impl Keys {
    pub fn draw(p: &mut Prng) -> Keys {
        Keys {
            k0: p.next_u64(),
            k1: p.next_u64(),
            drift: if p.chance(1, 2) { 0 } else { p.below(64) as u32 },
        }
    }
}

const PARTY_STACK: usize = 256 << 20;

/// How far a party's clock advances per reading: most machines are fast (1 us), some are slow or
/// stalled (1 ms, 1 s) and some see their clock jump (1 min). Derived from the keys, so it is part
/// of every replay file.
pub fn party_clock_step_ns(keys: &Keys) -> u64 {
    match (keys.k0 >> 7) % 8 {
        0..=3 => 1_000,
        4 => 1_000_000,
        5 | 6 => 1_000_000_000,
        _ => 60_000_000_000,
    }
}

/// The simulated wall-clock time of a party (ns since the epoch): somewhere in 2020..2030.
pub fn party_time_ns(keys: &Keys) -> u64 {
    (1_600_000_000 + (keys.k0 ^ keys.k1.rotate_left(17)) % 300_000_000) * 1_000_000_000 + (keys.k1 % 1_000_000_000)
}

/// Run `f` as a simulated process: a fresh thread whose `RandomState` keys come from the seam.
/// Parties never overlap in time (spawn, run, join), so there is no real concurrency here.
pub fn run_party<T: Send + 'static>(keys: Keys, f: impl FnOnce() -> T + Send + 'static) -> Result<T, String> {
    seams::push_keys(keys.k0, keys.k1);
    let h = std::thread::Builder::new()
        .stack_size(PARTY_STACK)
        .spawn(move || {
            // first RandomState in this thread: pulls (k0,k1) from the seam; every map advances k0
            for _ in 0..keys.drift {
                let m: HashMap<u8, u8> = HashMap::new();
                std::hint::black_box(&m);
            }
            if keys.drift == 0 {
                // make sure the keys are consumed by this thread even if f creates no map
                let m: HashMap<u8, u8> = HashMap::new();
                std::hint::black_box(&m);
            }
            // party time: derived from the keys, so no two parties agree on what time it is
            seams::enter_party_clock(party_time_ns(&keys), party_clock_step_ns(&keys));
            seams::enter_party_env(vec![]);
            let r = guarded(f);
            seams::leave_party_env();
            seams::leave_party_clock();
            r
        })
        .map_err(|e| format!("spawn failed: {e}"))?;
    match h.join() {
        Ok(r) => r,
        Err(_) => Err("party thread died".into()),
    }
}

// ------------------------------------------------------------------------------------------
// constants
// ------------------------------------------------------------------------------------------

pub fn literal_of(c: &ConstSpec) -> Literal {
    match c.ty.as_str() {
        "bool" => {
            if c.val != 0 {
                Literal::True
            } else {
                Literal::False
            }
        }
        "usize" => Literal::NumUnsigned(c.val as u64, UnsignedNumType::Usize),
        "u8" => Literal::NumUnsigned(c.val as u64, UnsignedNumType::U8),
        "u16" => Literal::NumUnsigned(c.val as u64, UnsignedNumType::U16),
        "u32" => Literal::NumUnsigned(c.val as u64, UnsignedNumType::U32),
        "u64" => Literal::NumUnsigned(c.val as u64, UnsignedNumType::U64),
        "i8" => Literal::NumSigned(c.val, SignedNumType::I8),
        "i16" => Literal::NumSigned(c.val, SignedNumType::I16),
        "i32" => Literal::NumSigned(c.val, SignedNumType::I32),
        "i64" => Literal::NumSigned(c.val, SignedNumType::I64),
        _ => Literal::NumUnsigned(c.val as u64, UnsignedNumType::Usize),
    }
}

/// Build the constants map; `perm`/`cap` vary insertion order and capacity (logically the same map).
pub fn build_consts(specs: &[ConstSpec], perm: &[usize], cap: usize) -> HashMap<String, HashMap<String, Literal>> {
    let mut m: HashMap<String, HashMap<String, Literal>> = HashMap::with_capacity(cap);
    let order: Vec<usize> = if perm.len() == specs.len() { perm.to_vec() } else { (0..specs.len()).collect() };
    for i in order {
        let c = &specs[i];
        m.entry(c.party.clone())
            .or_insert_with(|| HashMap::with_capacity(cap))
            .insert(c.name.clone(), literal_of(c));
    }
    m
}

/// What a program needs from the outside, read off the type-checked program (sorted: never trust map order).
pub struct Analysis {
    pub typechecks: bool,
    pub consts: Vec<ConstSpec>,
    pub pub_fns: Vec<String>,
    pub note: String,
}

pub fn analyse(src: &str, p: &mut Prng) -> Analysis {
    let r = guarded(|| garble_lang::check(src));
    match r {
        Ok(Ok(tp)) => {
            let mut deps: Vec<(String, String, String)> = vec![];
            for (party, m) in tp.const_deps.iter() {
                for (name, (ty, _)) in m.iter() {
                    deps.push((party.clone(), name.clone(), format!("{ty}")));
                }
            }
            deps.sort();
            let wide = src.starts_with(crate::gen::WIDE_CONSTS_MARKER);
            let consts = deps
                .into_iter()
                .map(|(party, name, ty)| {
                    let val = match ty.as_str() {
                        t if wide && t != "bool" => *p.pick(&crate::gen::boundary_values(t)),
                        "bool" => p.below(2) as i64,
                        "usize" => p.range(1, 4) as i64,
                        t if t.starts_with('i') => p.range(0, 6) as i64 - 3,
                        _ => p.range(0, 5) as i64,
                    };
                    ConstSpec { party, name, ty, val }
                })
                .collect();
            let mut pub_fns: Vec<String> = tp.fn_defs.values().filter(|f| f.is_pub).map(|f| f.identifier.clone()).collect();
            pub_fns.sort();
            Analysis { typechecks: true, consts, pub_fns, note: String::new() }
        }
        Ok(Err(_)) => Analysis { typechecks: false, consts: vec![], pub_fns: vec!["main".into()], note: "rejected".into() },
        Err(m) => Analysis { typechecks: false, consts: vec![], pub_fns: vec!["main".into()], note: format!("front end panicked: {m}") },
    }
}

// ------------------------------------------------------------------------------------------
// compile runner + digests
// ------------------------------------------------------------------------------------------

pub fn digest_ssa(c: &Circuit, d: &mut Digest) {
    d.u64(0x55A);
    d.usize(c.input_gates.len());
    for &g in &c.input_gates {
        d.usize(g);
    }
    d.usize(c.gates.len());
    for g in &c.gates {
        match g {
            Gate::Xor(x, y) => {
                d.u64(1);
                d.usize(*x);
                d.usize(*y);
            }
            Gate::And(x, y) => {
                d.u64(2);
                d.usize(*x);
                d.usize(*y);
            }
            Gate::Not(x) => {
                d.u64(3);
                d.usize(*x);
            }
        }
    }
    d.usize(c.output_gates.len());
    for &o in &c.output_gates {
        d.usize(o);
    }
}

pub fn digest_reg(c: &rc::Circuit, d: &mut Digest) {
    d.u64(0x4E6);
    d.usize(c.input_regs.len());
    for &g in &c.input_regs {
        d.usize(g);
    }
    d.usize(c.insts.len());
    for i in &c.insts {
        d.u64(i.out.0 as u64);
        match i.op {
            rc::Op::Xor(rc::Xor(a, b)) => {
                d.u64(1);
                d.u64(a.0 as u64);
                d.u64(b.0 as u64);
            }
            rc::Op::And(rc::And(a, b)) => {
                d.u64(2);
                d.u64(a.0 as u64);
                d.u64(b.0 as u64);
            }
            rc::Op::Not(rc::Not(a)) => {
                d.u64(3);
                d.u64(a.0 as u64);
            }
            rc::Op::Input(rc::Input { party, input }) => {
                d.u64(4);
                d.u64(party as u64);
                d.u64(input as u64);
            }
        }
    }
    d.usize(c.max_reg_count);
    d.usize(c.output_regs.len());
    for r in &c.output_regs {
        d.u64(r.0 as u64);
    }
    d.usize(c.and_ops);
}

pub fn digest_circuit(c: &CircuitType) -> String {
    let mut d = Digest::new();
    match c {
        CircuitType::Ssa(c) => digest_ssa(c, &mut d),
        CircuitType::Register(c) => digest_reg(c, &mut d),
    }
    d.hex()
}

/// Flatten a circuit into a word list so that a first differing index can be reported.
pub fn flatten(c: &CircuitType) -> Vec<u64> {
    let mut v = vec![];
    match c {
        CircuitType::Ssa(c) => {
            v.push(c.input_gates.len() as u64);
            v.extend(c.input_gates.iter().map(|&x| x as u64));
            v.push(c.gates.len() as u64);
            for g in &c.gates {
                match g {
                    Gate::Xor(x, y) => v.extend([1, *x as u64, *y as u64]),
                    Gate::And(x, y) => v.extend([2, *x as u64, *y as u64]),
                    Gate::Not(x) => v.extend([3, *x as u64, 0]),
                }
            }
            v.push(c.output_gates.len() as u64);
            v.extend(c.output_gates.iter().map(|&x| x as u64));
        }
        CircuitType::Register(c) => {
            v.push(c.input_regs.len() as u64);
            v.extend(c.input_regs.iter().map(|&x| x as u64));
            v.push(c.insts.len() as u64);
            for i in &c.insts {
                let (t, a, b) = match i.op {
                    rc::Op::Xor(rc::Xor(a, b)) => (1, a.0 as u64, b.0 as u64),
                    rc::Op::And(rc::And(a, b)) => (2, a.0 as u64, b.0 as u64),
                    rc::Op::Not(rc::Not(a)) => (3, a.0 as u64, 0),
                    rc::Op::Input(rc::Input { party, input }) => (4, party as u64, input as u64),
                };
                v.extend([i.out.0 as u64, t, a, b]);
            }
            v.push(c.max_reg_count as u64);
            v.push(c.output_regs.len() as u64);
            v.extend(c.output_regs.iter().map(|r| r.0 as u64));
            v.push(c.and_ops as u64);
        }
    }
    v
}

/// Inverse of `flatten` (kind 'S' = SSA, 'R' = register); used for circuits that come back from
/// the receiver / party built with default cargo features (crate /verif/plain).
pub fn unflatten(kind: char, v: &[u64]) -> Option<CircuitType> {
    let mut i = 0usize;
    let mut next = |i: &mut usize| -> Option<u64> {
        let x = v.get(*i).copied();
        *i += 1;
        x
    };
    if kind == 'S' {
        let np = next(&mut i)? as usize;
        let mut input_gates = vec![];
        for _ in 0..np {
            input_gates.push(next(&mut i)? as usize);
        }
        let ng = next(&mut i)? as usize;
        let mut gates = Vec::with_capacity(ng.min(1 << 22));
        for _ in 0..ng {
            let (t, a, b) = (next(&mut i)?, next(&mut i)? as usize, next(&mut i)? as usize);
            gates.push(match t {
                1 => Gate::Xor(a, b),
                2 => Gate::And(a, b),
                _ => Gate::Not(a),
            });
        }
        let no = next(&mut i)? as usize;
        let mut output_gates = vec![];
        for _ in 0..no {
            output_gates.push(next(&mut i)? as usize);
        }
        Some(CircuitType::Ssa(Circuit { input_gates, gates, output_gates }))
    } else {
        let np = next(&mut i)? as usize;
        let mut input_regs = vec![];
        for _ in 0..np {
            input_regs.push(next(&mut i)? as usize);
        }
        let ni = next(&mut i)? as usize;
        let mut insts = Vec::with_capacity(ni.min(1 << 22));
        for _ in 0..ni {
            let (out, t, a, b) = (next(&mut i)? as u32, next(&mut i)?, next(&mut i)?, next(&mut i)?);
            let op = match t {
                1 => rc::Op::Xor(rc::Xor(rc::Reg(a as u32), rc::Reg(b as u32))),
                2 => rc::Op::And(rc::And(rc::Reg(a as u32), rc::Reg(b as u32))),
                3 => rc::Op::Not(rc::Not(rc::Reg(a as u32))),
                _ => rc::Op::Input(rc::Input { party: a as u32, input: b as u32 }),
            };
            insts.push(rc::Inst { out: rc::Reg(out), op });
        }
        let max_reg_count = next(&mut i)? as usize;
        let no = next(&mut i)? as usize;
        let mut output_regs = vec![];
        for _ in 0..no {
            output_regs.push(rc::Reg(next(&mut i)? as u32));
        }
        let and_ops = next(&mut i)? as usize;
        Some(CircuitType::Register(rc::Circuit { input_regs, insts, max_reg_count, output_regs, and_ops }))
    }
}

pub fn hex(b: &[u8]) -> String {
    let mut s = String::with_capacity(b.len() * 2);
    for x in b {
        s.push_str(&format!("{x:02x}"));
    }
    s
}

/// Every child process of the simulator: dies with its parent (a killed worker must not leave a
/// runaway child behind that eats a core for hours) and has a CPU budget of its own.
pub fn child_command<S: AsRef<std::ffi::OsStr>>(exe: S) -> std::process::Command {
    use std::os::unix::process::CommandExt;
    let mut cmd = std::process::Command::new(exe);
    unsafe {
        cmd.pre_exec(|| {
            libc::prctl(libc::PR_SET_PDEATHSIG, libc::SIGKILL);
            let cpu = libc::rlimit { rlim_cur: 1800, rlim_max: 1800 };
            libc::setrlimit(libc::RLIMIT_CPU, &cpu);
            let z = libc::rlimit { rlim_cur: 0, rlim_max: 0 };
            libc::setrlimit(libc::RLIMIT_CORE, &z);
            Ok(())
        });
    }
    cmd
}

pub fn plain_bin() -> Option<std::path::PathBuf> {
    std::env::var("VERIF_PLAIN_BIN").ok().map(std::path::PathBuf::from).filter(|p| p.exists())
}

#[derive(Clone, Debug, PartialEq, Eq, Serialize, Deserialize)]
pub enum Outcome {
    /// digest of the circuit, number of gates/instructions
    Ok { digest: String, size: usize },
    /// error class ("type", "compile", "scan", "parse", ...) and a digest of the rendered error list
    Err { class: String, detail: String },
    Panic { msg: String },
}

impl Outcome {
    pub fn class(&self) -> String {
        match self {
            Outcome::Ok { .. } => "ok".into(),
            Outcome::Err { class, .. } => format!("err:{class}"),
            Outcome::Panic { .. } => "panic".into(),
        }
    }
    /// The part that must be identical across parties.
    pub fn key(&self) -> String {
        match self {
            Outcome::Ok { digest, .. } => format!("ok:{digest}"),
            Outcome::Err { class, .. } => format!("err:{class}"),
            Outcome::Panic { .. } => "panic".into(),
        }
    }
}

fn err_class(e: &garble_lang::Error) -> (String, String) {
    use garble_lang::{CompileTimeError as C, Error as E};
    let class = match e {
        E::FnNotFound(_) => "fn_not_found",
        E::CompileTimeError(C::ScanErrors(_)) => "scan",
        E::CompileTimeError(C::ParseError(_)) => "parse",
        E::CompileTimeError(C::TypeError(_)) => "type",
        E::CompileTimeError(C::CompilerError(_)) => "compiler",
        E::EvalError(_) => "eval",
        E::ConvertError(_) => "convert",
    };
    (class.to_string(), crate::prng::digest_bytes(format!("{e:?}").as_bytes()))
}

/// Compile a typed program's function with options; returns the circuit.
pub fn compile_typed(
    tp: &TypedProgram,
    fn_name: &str,
    consts: HashMap<String, HashMap<String, Literal>>,
    o: Opts,
) -> Result<CircuitType, garble_lang::Error> {
    let opts = CompileOptions {
        circuit_kind: if o.register { CircuitKind::Register } else { CircuitKind::Ssa },
        consts: HashMap::new(),
        optimize_duplicate_gates: o.dedup,
    };
    let (c, _f, _sizes) = tp.compile_with_constants(fn_name, consts, &opts)?;
    let mut ct = CircuitType::Ssa(c);
    if o.register {
        ct.to_register();
    }
    Ok(ct)
}

/// Full pipeline from source text, as an independent party would run it.
pub fn compile_src(
    src: &str,
    fn_name: &str,
    consts: HashMap<String, HashMap<String, Literal>>,
    o: Opts,
    via_lib_entry: bool,
) -> Result<CircuitType, garble_lang::Error> {
    if via_lib_entry && fn_name == "main" {
        let opts = CompileOptions {
            circuit_kind: if o.register { CircuitKind::Register } else { CircuitKind::Ssa },
            consts,
            optimize_duplicate_gates: o.dedup,
        };
        return garble_lang::compile_with_options(src, opts).map(|p| p.circuit);
    }
    let tp = garble_lang::check(src)?;
    compile_typed(&tp, fn_name, consts, o)
}

pub fn outcome_of(r: Result<Result<CircuitType, garble_lang::Error>, String>) -> (Outcome, Option<CircuitType>) {
    match r {
        Ok(Ok(c)) => {
            let size = match &c {
                CircuitType::Ssa(c) => c.gates.len(),
                CircuitType::Register(c) => c.insts.len(),
            };
            (Outcome::Ok { digest: digest_circuit(&c), size }, Some(c))
        }
        Ok(Err(e)) => {
            let (class, detail) = err_class(&e);
            (Outcome::Err { class, detail }, None)
        }
        Err(msg) => (Outcome::Panic { msg }, None),
    }
}

// ------------------------------------------------------------------------------------------
// corpus
// ------------------------------------------------------------------------------------------

#[derive(Deserialize, Serialize, Clone)]
pub struct CorpusEntry {
    pub name: String,
    pub src: String,
}

pub fn verif_dir() -> std::path::PathBuf {
    if let Ok(d) = std::env::var("VERIF_DIR") {
        return d.into();
    }
    // binary lives in <verif>/sim/target/release/
    let exe = std::env::current_exe().unwrap_or_default();
    for anc in exe.ancestors() {
        if anc.join("properties.jsonl").exists() {
            return anc.to_path_buf();
        }
    }
    "/verif".into()
}

pub fn load_corpus() -> Result<Vec<CorpusEntry>, String> {
    let dir = verif_dir().join("corpus");
    let mut all: Vec<CorpusEntry> = vec![];
    let mut files: Vec<_> = std::fs::read_dir(&dir)
        .map_err(|e| format!("{}: {e}", dir.display()))?
        .filter_map(|e| e.ok())
        .map(|e| e.path())
        .collect();
    files.sort();
    for f in files {
        let n = f.file_name().unwrap().to_string_lossy().to_string();
        if n == "candidates.json" {
            continue;
        }
        if n.ends_with(".json") {
            let t = std::fs::read_to_string(&f).map_err(|e| e.to_string())?;
            let v: Vec<CorpusEntry> = serde_json::from_str(&t).map_err(|e| format!("{n}: {e}"))?;
            all.extend(v);
        } else if n.ends_with(".garble.rs") {
            let t = std::fs::read_to_string(&f).map_err(|e| e.to_string())?;
            all.push(CorpusEntry { name: n, src: t });
        }
    }
    Ok(all)
}

pub type FiredMap = BTreeMap<String, u64>;

pub fn merge_counts(into: &mut FiredMap, from: &BTreeMap<&'static str, u64>) {
    for (k, v) in from {
        *into.entry((*k).to_string()).or_insert(0) += v;
    }
}
