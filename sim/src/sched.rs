//! Baton scheduler for the one multi-threaded scenario (C11/S5: two exporters, one path).
//! Real threads, simulated choice of who runs: at every intercepted syscall on a simulated file a
//! participating thread hands the baton to a thread drawn from the PRNG (possibly itself) and
//! blocks until it is handed back. Exactly one participating thread runs at any time, so the
//! interleaving is a pure function of the choice sequence, which is recorded and replayable.
//!
//! Blocking locks only: a try_lock here would silently skip a scheduling point on a lost race.

use crate::prng::Prng;
use std::cell::Cell;
use std::sync::{Condvar, Mutex};

#[derive(Clone, Copy, PartialEq, Eq, Debug)]
enum T {
    NotArrived,
    Waiting,
    Done,
}

struct S {
    active: bool,
    threads: Vec<T>,
    current: Option<usize>,
    prng: Option<Prng>,
    /// if set, choices are taken from here (replay / minimised schedule); falls back to lowest runnable
    forced: Option<Vec<u8>>,
    forced_pos: usize,
    trace: Vec<u8>,
    points: u64,
}

static SCHED: Mutex<S> = Mutex::new(S {
    active: false,
    threads: Vec::new(),
    current: None,
    prng: None,
    forced: None,
    forced_pos: 0,
    trace: Vec::new(),
    points: 0,
});
static CV: Condvar = Condvar::new();
/// one condition variable per participating thread: handing over the baton wakes exactly one thread
#[allow(clippy::declare_interior_mutable_const)]
const CV_INIT: Condvar = Condvar::new();
static CVS: [Condvar; 64] = [CV_INIT; 64];

fn wake(s: &S) {
    match s.current {
        Some(t) if t < 64 => CVS[t].notify_one(),
        _ => {}
    }
    CV.notify_all(); // the harness thread waiting in start()
}

/// How often a waiting thread found the running thread stuck OUTSIDE a scheduling point (blocked
/// on a real lock that a parked thread holds) and took the baton over.
pub static TAKEOVERS: std::sync::atomic::AtomicU64 = std::sync::atomic::AtomicU64::new(0);

fn wait_turn(mut s: std::sync::MutexGuard<'static, S>, tid: usize) -> std::sync::MutexGuard<'static, S> {
    // If the code under test holds a real lock across a scheduling point, the thread that was
    // handed the baton may block on that lock and never reach its next scheduling point, while the
    // holder is parked here: a deadlock made by the scheduler, not by the code. Detector (the only
    // use of real time in the scheduler): if the baton has not moved for 2 s, the lowest waiting
    // thread takes it over; the take-over is part of the recorded trace (200 + tid).
    let mut seen = s.points;
    while s.current != Some(tid) {
        let (g, t) = crate::seams::with_real_clock(|| if tid < 64 { CVS[tid].wait_timeout(s, std::time::Duration::from_secs(2)) } else { CV.wait_timeout(s, std::time::Duration::from_secs(2)) }.unwrap_or_else(|e| e.into_inner()));
        s = g;
        if s.current == Some(tid) {
            break;
        }
        if t.timed_out() && s.active {
            let lowest_waiting = (0..s.threads.len()).find(|&i| s.threads[i] == T::Waiting && Some(i) != s.current);
            if s.points == seen && lowest_waiting == Some(tid) && s.current.is_some() {
                s.current = Some(tid);
                s.trace.push(200u8.saturating_add(tid as u8));
                TAKEOVERS.fetch_add(1, std::sync::atomic::Ordering::Relaxed);
                break;
            }
            seen = s.points;
        }
    }
    s
}

thread_local! {
    static TID: Cell<usize> = const { Cell::new(usize::MAX) };
}

fn lock() -> std::sync::MutexGuard<'static, S> {
    SCHED.lock().unwrap_or_else(|e| e.into_inner())
}

fn choose(s: &mut S) -> Option<usize> {
    let runnable: Vec<usize> = (0..s.threads.len()).filter(|&i| s.threads[i] == T::Waiting).collect();
    if runnable.is_empty() {
        return None;
    }
    let pick = if let Some(f) = &s.forced {
        let want = f.get(s.forced_pos).copied();
        s.forced_pos += 1;
        match want {
            Some(w) if runnable.contains(&(w as usize)) => w as usize,
            _ => runnable[0],
        }
    } else if let Some(p) = &mut s.prng {
        runnable[p.usize_below(runnable.len())]
    } else {
        runnable[0]
    };
    s.trace.push(pick as u8);
    Some(pick)
}

/// Start a scheduled section for `n` threads. Choices come from `prng`, or from `forced` when given.
pub fn begin(n: usize, prng: Prng, forced: Option<Vec<u8>>) {
    let mut s = lock();
    s.active = true;
    s.threads = vec![T::NotArrived; n];
    s.current = None;
    s.prng = Some(prng);
    s.forced = forced;
    s.forced_pos = 0;
    s.trace.clear();
    s.points = 0;
}

/// Called first thing by each participating thread.
pub fn enter(tid: usize) {
    TID.with(|t| t.set(tid));
    let mut s = lock();
    s.threads[tid] = T::Waiting;
    CV.notify_all();
    let _s = wait_turn(s, tid);
}

/// Called by the harness after spawning: waits until every thread has arrived, then hands out the baton.
pub fn start() {
    let mut s = lock();
    while s.threads.iter().any(|t| *t == T::NotArrived) {
        s = CV.wait(s).unwrap_or_else(|e| e.into_inner());
    }
    let c = choose(&mut s);
    s.current = c;
    wake(&s);
}

/// Scheduling point (called from the interposers). No-op for non-participating threads.
pub fn point() {
    let tid = TID.try_with(|t| t.get()).unwrap_or(usize::MAX);
    if tid == usize::MAX {
        return;
    }
    let mut s = lock();
    if !s.active {
        return;
    }
    s.points += 1;
    let c = choose(&mut s);
    s.current = c;
    if c == Some(tid) {
        return;
    }
    wake(&s);
    let _s = wait_turn(s, tid);
}

/// Called last thing by each participating thread.
pub fn leave() {
    let tid = TID.try_with(|t| t.get()).unwrap_or(usize::MAX);
    if tid == usize::MAX {
        return;
    }
    TID.with(|t| t.set(usize::MAX));
    let mut s = lock();
    s.threads[tid] = T::Done;
    let c = choose(&mut s);
    s.current = c;
    wake(&s);
}

/// End the section; returns (choice trace, number of scheduling points).
pub fn end() -> (Vec<u8>, u64) {
    let mut s = lock();
    s.active = false;
    s.current = None;
    (std::mem::take(&mut s.trace), s.points)
}
