//! Seams by symbol interposition: this binary defines libc's `getrandom`, `open64`, `open`,
//! `write`, `read` and `close`. `std` is linked statically into the binary, so its references to
//! those symbols resolve here; real `std::fs::File`, `BufReader`, `HashMap` and all of
//! garble_lang run unchanged on top of a disk, an entropy source and a syscall layer the
//! simulator owns.
//!
//! Rules inside an interposer: forward with `libc::syscall(SYS_*)`, never through the interposed
//! symbol; never print; never call garble code; take the WORLD lock with a blocking lock and never
//! while holding the scheduler lock.

use crate::prng::Digest;
use std::collections::{BTreeMap, VecDeque};
use std::ffi::CStr;
use std::sync::atomic::{AtomicBool, AtomicU64, Ordering};
use std::sync::{Mutex, MutexGuard};

pub const SIM_PREFIX: &str = "/SIMDISK/";
const MAX_FD: usize = 4096;

#[allow(clippy::declare_interior_mutable_const)]
const FALSE: AtomicBool = AtomicBool::new(false);
static SIM_FD: [AtomicBool; MAX_FD] = [FALSE; MAX_FD];

/// liveness counters (never reset): prove that std really calls into the interposers
pub static CALLS_GETRANDOM: AtomicU64 = AtomicU64::new(0);
pub static CALLS_OPEN: AtomicU64 = AtomicU64::new(0);
pub static CALLS_WRITE: AtomicU64 = AtomicU64::new(0);
pub static CALLS_READ: AtomicU64 = AtomicU64::new(0);
pub static CALLS_CLOSE: AtomicU64 = AtomicU64::new(0);

#[derive(Clone, Copy, Debug, PartialEq, Eq, serde::Serialize, serde::Deserialize)]
#[serde(rename_all = "snake_case")]
pub enum Act {
    /// transfer at most n bytes (n >= 1); transparent to a correct caller
    Short(usize),
    /// fail with EINTR, nothing transferred; transparent to a correct caller
    Eintr,
    /// fail once with this errno, nothing transferred
    Err(i32),
    /// fail with this errno now and on every later call of the same kind (dead device / crashed writer)
    ErrSticky(i32),
}

#[derive(Clone, Debug, Default, PartialEq, Eq, serde::Serialize, serde::Deserialize)]
pub struct Plan {
    /// index of the open call (since the plan was installed) -> errno
    #[serde(default)]
    pub open: BTreeMap<u64, i32>,
    #[serde(default)]
    pub write: BTreeMap<u64, Act>,
    #[serde(default)]
    pub read: BTreeMap<u64, Act>,
    /// bytes the disk will still accept (ENOSPC once exhausted; a write crossing the limit is shortened)
    #[serde(default)]
    pub capacity: Option<u64>,
    /// index of the fsync/fdatasync call -> errno
    #[serde(default)]
    pub sync: BTreeMap<u64, i32>,
    /// what stat/fstat/statx report as the file's size instead of the truth (a pipe or a file that
    /// is still growing reports 0 or a stale length); reading to end-of-file is unaffected
    #[serde(default)]
    pub stat_size: Option<u64>,
    /// another process holds an advisory lock (flock) on every simulated file for the whole world
    #[serde(default)]
    pub locked_by_other: bool,
}

impl Plan {
    pub fn is_empty(&self) -> bool {
        self.open.is_empty() && self.write.is_empty() && self.read.is_empty() && self.capacity.is_none() && self.sync.is_empty() && self.stat_size.is_none() && !self.locked_by_other
    }
    pub fn n_faults(&self) -> usize {
        self.open.len() + self.write.len() + self.read.len() + self.capacity.is_some() as usize + self.sync.len() + self.stat_size.is_some() as usize
    }
}

#[derive(Clone, Copy, Debug, PartialEq, Eq)]
pub struct Ev {
    /// 'o' open, 'w' write, 'r' read, 'c' close, 'g' getrandom
    pub sys: u8,
    pub idx: u64,
    pub req: u64,
    /// 0 pass, 1 short, 2 eintr, 3 err, 4 sticky, 5 enospc(capacity)
    pub act: u8,
    pub ret: i64,
}

pub struct OpenFile {
    pub path: String,
    pub off: usize,
    pub readable: bool,
    pub writable: bool,
    pub append: bool,
}

#[derive(Default)]
pub struct Counters {
    pub opens: u64,
    pub writes: u64,
    pub reads: u64,
    pub bytes_written: u64,
    pub bytes_read: u64,
    pub fired: BTreeMap<&'static str, u64>,
}

pub struct World {
    pub active: bool,
    pub disk: BTreeMap<String, Vec<u8>>,
    /// paths that are FIFOs / pipes (`mkfifo`, `/dev/stdout`, `/dev/fd/N`): path -> bytes already
    /// consumed by readers. Everything ever written stays in `disk[path]` (for the oracle); a
    /// reader gets the bytes after the consumed offset, whichever fd it uses; not seekable, not
    /// truncatable, `fsync` fails with EINVAL, `stat` says S_IFIFO with size 0
    pub pipes: BTreeMap<String, usize>,
    /// modification time of every simulated file (seconds; a logical tick per modification)
    pub mtimes: BTreeMap<String, u64>,
    pub tick: u64,
    pub fds: BTreeMap<i32, OpenFile>,
    pub plan: Plan,
    pub n_open: u64,
    pub n_write: u64,
    pub n_read: u64,
    pub n_sync: u64,
    pub sticky_write: Option<i32>,
    pub sticky_read: Option<i32>,
    pub keys: VecDeque<(u64, u64)>,
    pub keys_handed: u64,
    pub log: Vec<Ev>,
    pub log_enabled: bool,
    pub counters: Counters,
}

impl World {
    const fn new() -> Self {
        World {
            active: false,
            disk: BTreeMap::new(),
            pipes: BTreeMap::new(),
            mtimes: BTreeMap::new(),
            tick: 1_700_000_000,
            fds: BTreeMap::new(),
            plan: Plan {
                open: BTreeMap::new(),
                write: BTreeMap::new(),
                read: BTreeMap::new(),
                capacity: None,
                sync: BTreeMap::new(),
                stat_size: None,
                locked_by_other: false,
            },
            n_open: 0,
            n_write: 0,
            n_read: 0,
            n_sync: 0,
            sticky_write: None,
            sticky_read: None,
            keys: VecDeque::new(),
            keys_handed: 0,
            log: Vec::new(),
            log_enabled: true,
            counters: Counters {
                opens: 0,
                writes: 0,
                reads: 0,
                bytes_written: 0,
                bytes_read: 0,
                fired: BTreeMap::new(),
            },
        }
    }
    fn touch(&mut self, path: &str) {
        self.tick += 1;
        let t = self.tick;
        self.mtimes.insert(path.to_string(), t);
    }
    fn fire(&mut self, k: &'static str) {
        *self.counters.fired.entry(k).or_insert(0) += 1;
    }
    fn ev(&mut self, e: Ev) {
        if self.log_enabled {
            self.log.push(e);
        }
    }
}

static WORLD: Mutex<World> = Mutex::new(World::new());

pub fn world() -> MutexGuard<'static, World> {
    WORLD.lock().unwrap_or_else(|e| e.into_inner())
}

// ---------------------------------------------------------------------------------------------
// harness-side API
// ---------------------------------------------------------------------------------------------

/// Reset disk, fds (real placeholder fds still open are left to their owners), plan, log, keys.
pub fn reset_world() {
    let mut w = world();
    w.active = true;
    w.disk.clear();
    w.pipes.clear();
    w.mtimes.clear();
    w.plan = Plan::default();
    w.n_open = 0;
    w.n_write = 0;
    w.n_read = 0;
    w.n_sync = 0;
    w.sticky_write = None;
    w.sticky_read = None;
    w.keys.clear();
    w.log.clear();
}

/// Install a fault plan; syscall indices restart at 0.
pub fn install_plan(p: Plan) {
    let mut w = world();
    w.plan = p;
    w.n_open = 0;
    w.n_write = 0;
    w.n_read = 0;
    w.n_sync = 0;
    w.sticky_write = None;
    w.sticky_read = None;
}

pub fn sync_count() -> u64 {
    world().n_sync
}

pub fn syscall_counts() -> (u64, u64, u64) {
    let w = world();
    (w.n_open, w.n_write, w.n_read)
}

pub fn push_keys(k0: u64, k1: u64) {
    world().keys.push_back((k0, k1));
}

pub fn disk_get(path: &str) -> Option<Vec<u8>> {
    world().disk.get(path).cloned()
}

pub fn disk_put(path: &str, data: Vec<u8>) {
    let mut w = world();
    w.disk.insert(path.to_string(), data);
    w.touch(path);
}

/// Replace a file's contents "from outside" while keeping its modification time (cp -p, rsync -t,
/// a file system with coarse timestamps).
pub fn disk_put_keep_mtime(path: &str, data: Vec<u8>) {
    world().disk.insert(path.to_string(), data);
}

pub fn disk_remove(path: &str) {
    let mut w = world();
    w.disk.remove(path);
    w.pipes.remove(path);
}

/// Make the path a FIFO (empty, nothing consumed yet).
pub fn disk_make_pipe(path: &str) {
    let mut w = world();
    w.disk.insert(path.to_string(), Vec::new());
    w.pipes.insert(path.to_string(), 0);
    w.touch(path);
}

fn is_pipe_path(p: &str) -> bool {
    world().pipes.contains_key(p)
}

fn is_pipe_fd(fd: i32) -> bool {
    let w = world();
    w.fds.get(&fd).map(|f| w.pipes.contains_key(&f.path)).unwrap_or(false)
}

pub fn take_log() -> Vec<Ev> {
    std::mem::take(&mut world().log)
}

pub fn digest_log(evs: &[Ev], d: &mut Digest) {
    d.usize(evs.len());
    for e in evs {
        d.u64(e.sys as u64);
        d.u64(e.idx);
        d.u64(e.req);
        d.u64(e.act as u64);
        d.u64(e.ret as u64);
    }
}

pub fn take_fired() -> BTreeMap<&'static str, u64> {
    std::mem::take(&mut world().counters.fired)
}

pub fn sim_path(name: &str) -> std::path::PathBuf {
    std::path::PathBuf::from(format!("{SIM_PREFIX}{name}"))
}

/// A simulated path whose file name is arbitrary bytes (not necessarily UTF-8), and the key under
/// which the simulated disk knows it.
pub fn sim_path_bytes(name: &[u8]) -> (std::path::PathBuf, String) {
    use std::os::unix::ffi::OsStringExt;
    let mut full = SIM_PREFIX.as_bytes().to_vec();
    full.extend_from_slice(name);
    let key = String::from_utf8_lossy(&full).into_owned();
    (std::path::PathBuf::from(std::ffi::OsString::from_vec(full)), key)
}

// ---------------------------------------------------------------------------------------------
// interposers
// ---------------------------------------------------------------------------------------------

unsafe fn set_errno(e: i32) {
    *libc::__errno_location() = e;
}

fn placeholder_fd() -> i32 {
    // a real fd (so that std's close() and fd numbering stay real) that carries no data
    unsafe {
        libc::syscall(
            libc::SYS_openat,
            libc::AT_FDCWD,
            c"/dev/null".as_ptr(),
            libc::O_RDWR | libc::O_CLOEXEC,
            0,
        ) as i32
    }
}

unsafe fn sim_open(path: &str, flags: i32) -> i32 {
    crate::sched::point();
    let mut w = world();
    let idx = w.n_open;
    w.n_open += 1;
    w.counters.opens += 1;
    if let Some(&errno) = w.plan.open.get(&idx) {
        // EINTR is retried by std (cvt_r): transparent to a correct caller
        w.fire(if errno == libc::EINTR {
            "open_eintr"
        } else if flags & libc::O_ACCMODE == libc::O_RDONLY {
            "open_read_err"
        } else {
            "open_write_err"
        });
        w.ev(Ev { sys: b'o', idx, req: flags as u64, act: 3, ret: -(errno as i64) });
        drop(w);
        set_errno(errno);
        return -1;
    }
    let acc = flags & libc::O_ACCMODE;
    let exists = w.disk.contains_key(path);
    if !exists {
        if flags & libc::O_CREAT == 0 {
            w.ev(Ev { sys: b'o', idx, req: flags as u64, act: 0, ret: -(libc::ENOENT as i64) });
            drop(w);
            set_errno(libc::ENOENT);
            return -1;
        }
        w.disk.insert(path.to_string(), Vec::new());
    } else if flags & libc::O_CREAT != 0 && flags & libc::O_EXCL != 0 {
        w.ev(Ev { sys: b'o', idx, req: flags as u64, act: 0, ret: -(libc::EEXIST as i64) });
        drop(w);
        set_errno(libc::EEXIST);
        return -1;
    }
    if flags & libc::O_TRUNC != 0 && acc != libc::O_RDONLY && !w.pipes.contains_key(path) {
        w.disk.get_mut(path).unwrap().clear();
        w.touch(path);
    }
    let fd = placeholder_fd();
    if fd < 0 || fd as usize >= MAX_FD {
        drop(w);
        set_errno(libc::EMFILE);
        return -1;
    }
    w.fds.insert(
        fd,
        OpenFile {
            path: path.to_string(),
            off: 0,
            readable: acc == libc::O_RDONLY || acc == libc::O_RDWR,
            writable: acc == libc::O_WRONLY || acc == libc::O_RDWR,
            append: flags & libc::O_APPEND != 0,
        },
    );
    SIM_FD[fd as usize].store(true, Ordering::SeqCst);
    // fd numbers are not logged: they depend on what else the process has open
    w.ev(Ev { sys: b'o', idx, req: flags as u64, act: 0, ret: 0 });
    fd
}

thread_local! {
    /// true: the current working directory of this thread's "process" is the root of the simulated
    /// disk, so relative paths (`circuit.txt`, `./circuit.txt`) name simulated files
    static SIM_CWD: std::cell::Cell<bool> = const { std::cell::Cell::new(false) };
}

pub fn enter_sim_cwd(on: bool) {
    let _ = SIM_CWD.try_with(|c| c.set(on));
}

unsafe fn path_of(p: *const libc::c_char) -> Option<String> {
    if p.is_null() {
        return None;
    }
    let s = CStr::from_ptr(p).to_bytes();
    if s.starts_with(SIM_PREFIX.as_bytes()) {
        Some(String::from_utf8_lossy(s).into_owned())
    } else if !s.is_empty() && s[0] != b'/' && SIM_CWD.try_with(|c| c.get()).unwrap_or(false) {
        let rel = s.strip_prefix(b"./").unwrap_or(s);
        Some(format!("{SIM_PREFIX}{}", String::from_utf8_lossy(rel)))
    } else {
        None
    }
}

/// `.` and the root of the simulated disk are directories.
fn is_sim_dir(p: &str) -> bool {
    p == SIM_PREFIX || p.trim_end_matches('/') == SIM_PREFIX.trim_end_matches('/') || p == format!("{SIM_PREFIX}.")
}

/// Host files (anything outside the simulated disk) that the code under test asks for while the
/// current thread is a simulated party are an input of that party, like environment variables:
/// the path is recorded as "file:<path>" (discovery); for a party that has the entry on its flip
/// list the file reads as absent if it really exists and as an empty file if it does not.
/// Returns Some(true) = answer "absent", Some(false) = answer "present and empty", None = forward.
unsafe fn host_path_policy(path: *const libc::c_char) -> Option<bool> {
    if path.is_null() {
        return None;
    }
    let policy = PARTY_ENV.try_with(|e| e.try_borrow().ok().and_then(|b| b.clone())).ok().flatten()?;
    let name = format!("file:{}", String::from_utf8_lossy(CStr::from_ptr(path).to_bytes()));
    // what std itself opens (backtraces of caught panics, thread set-up) is not the code under test
    if name.starts_with("file:/proc/self/") || name.starts_with("file:/usr/lib/debug") || name == "file:/dev/null" || name.contains("/garble-sim") || name.contains("/.build-id/") {
        return None;
    }
    let flipped = policy.iter().any(|f| *f == name);
    let altered = policy.iter().any(|f| f.strip_prefix("filenum:").map(|p| name.strip_prefix("file:") == Some(p)).unwrap_or(false));
    if let Ok(mut q) = ENV_QUERIED.lock() {
        q.insert(name);
    }
    if altered {
        ALTER_NEXT_HOST_OPEN.with(|c| c.set(true));
        return None;
    }
    if !flipped {
        return None;
    }
    let exists = libc::syscall(libc::SYS_faccessat, libc::AT_FDCWD, path, libc::F_OK) == 0;
    Some(exists)
}

thread_local! {
    static ALTER_NEXT_HOST_OPEN: std::cell::Cell<bool> = const { std::cell::Cell::new(false) };
}

/// The host file as another machine would show it: same text, every number replaced by 1
/// (served from an anonymous memory file).
unsafe fn host_open_altered(path: *const libc::c_char) -> i32 {
    let fd = libc::syscall(libc::SYS_openat, libc::AT_FDCWD, path, libc::O_RDONLY, 0) as i32;
    if fd < 0 {
        return fd;
    }
    let mut content = vec![];
    let mut buf = [0u8; 4096];
    loop {
        let n = libc::syscall(libc::SYS_read, fd, buf.as_mut_ptr(), buf.len()) as isize;
        if n <= 0 || content.len() > (1 << 20) {
            break;
        }
        content.extend_from_slice(&buf[..n as usize]);
    }
    libc::syscall(libc::SYS_close, fd);
    let mut out = Vec::with_capacity(content.len());
    let mut i = 0;
    while i < content.len() {
        if content[i].is_ascii_digit() {
            out.push(b'1');
            while i < content.len() && content[i].is_ascii_digit() {
                i += 1;
            }
        } else {
            out.push(content[i]);
            i += 1;
        }
    }
    let m = libc::syscall(libc::SYS_memfd_create, b"altered\0".as_ptr(), 0) as i32;
    if m < 0 {
        return m;
    }
    let mut off = 0;
    while off < out.len() {
        let n = libc::syscall(libc::SYS_write, m, out[off..].as_ptr(), out.len() - off) as isize;
        if n <= 0 {
            break;
        }
        off += n as usize;
    }
    libc::syscall(libc::SYS_lseek, m, 0, libc::SEEK_SET);
    m
}

unsafe fn host_open_flipped(absent: bool) -> i32 {
    if absent {
        set_errno(libc::ENOENT);
        -1
    } else {
        libc::syscall(libc::SYS_openat, libc::AT_FDCWD, b"/dev/null\0".as_ptr(), libc::O_RDONLY, 0) as i32
    }
}

#[no_mangle]
pub unsafe extern "C" fn open64(path: *const libc::c_char, flags: i32, mode: libc::mode_t) -> i32 {
    CALLS_OPEN.fetch_add(1, Ordering::Relaxed);
    if let Some(p) = path_of(path) {
        return sim_open(&p, flags);
    }
    if let Some(absent) = host_path_policy(path) {
        return host_open_flipped(absent);
    }
    if ALTER_NEXT_HOST_OPEN.with(|c| c.replace(false)) {
        return host_open_altered(path);
    }
    libc::syscall(libc::SYS_openat, libc::AT_FDCWD, path, flags | libc::O_LARGEFILE, mode as libc::c_uint) as i32
}

#[no_mangle]
pub unsafe extern "C" fn open(path: *const libc::c_char, flags: i32, mode: libc::mode_t) -> i32 {
    CALLS_OPEN.fetch_add(1, Ordering::Relaxed);
    if let Some(p) = path_of(path) {
        return sim_open(&p, flags);
    }
    if let Some(absent) = host_path_policy(path) {
        return host_open_flipped(absent);
    }
    if ALTER_NEXT_HOST_OPEN.with(|c| c.replace(false)) {
        return host_open_altered(path);
    }
    libc::syscall(libc::SYS_openat, libc::AT_FDCWD, path, flags, mode as libc::c_uint) as i32
}

/// rename / unlink on simulated paths (an exporter that writes a temporary file and renames it
/// into place must work on the simulated disk too). Open fds keep referring to the old name's
/// image by path, which is enough for the write-then-rename idiom.
#[no_mangle]
pub unsafe extern "C" fn rename(old: *const libc::c_char, new: *const libc::c_char) -> i32 {
    match (path_of(old), path_of(new)) {
        (Some(o), Some(n)) => {
            crate::sched::point();
            let mut w = world();
            match w.disk.remove(&o) {
                Some(img) => {
                    w.disk.insert(n.clone(), img);
                    for f in w.fds.values_mut() {
                        if f.path == o {
                            f.path = n.clone();
                        }
                    }
                    w.ev(Ev { sys: b'n', idx: 0, req: 0, act: 0, ret: 0 });
                    0
                }
                None => {
                    w.ev(Ev { sys: b'n', idx: 0, req: 0, act: 0, ret: -(libc::ENOENT as i64) });
                    drop(w);
                    set_errno(libc::ENOENT);
                    -1
                }
            }
        }
        (None, None) => libc::syscall(libc::SYS_renameat2, libc::AT_FDCWD, old, libc::AT_FDCWD, new, 0) as i32,
        _ => {
            set_errno(libc::EXDEV);
            -1
        }
    }
}

#[no_mangle]
pub unsafe extern "C" fn unlink(path: *const libc::c_char) -> i32 {
    if let Some(p) = path_of(path) {
        crate::sched::point();
        let mut w = world();
        let existed = w.disk.remove(&p).is_some();
        w.ev(Ev { sys: b'u', idx: 0, req: 0, act: 0, ret: if existed { 0 } else { -(libc::ENOENT as i64) } });
        drop(w);
        if existed {
            return 0;
        }
        set_errno(libc::ENOENT);
        return -1;
    }
    libc::syscall(libc::SYS_unlinkat, libc::AT_FDCWD, path, 0) as i32
}

#[no_mangle]
pub unsafe extern "C" fn close(fd: i32) -> i32 {
    CALLS_CLOSE.fetch_add(1, Ordering::Relaxed);
    if fd >= 0 && (fd as usize) < MAX_FD && SIM_FD[fd as usize].swap(false, Ordering::SeqCst) {
        let mut w = world();
        w.fds.remove(&fd);
        w.ev(Ev { sys: b'c', idx: 0, req: 0, act: 0, ret: 0 });
    }
    libc::syscall(libc::SYS_close, fd) as i32
}

thread_local! {
    /// Some(errno): writes of THIS thread to stdout / stderr fail (the process's log pipe lost its
    /// reader, its log disk is full, its terminal went away)
    static STDIO_BROKEN: std::cell::Cell<Option<i32>> = const { std::cell::Cell::new(None) };
}
pub static STDIO_WRITES_BY_CODE_UNDER_TEST: AtomicU64 = AtomicU64::new(0);

pub fn break_stdio(errno: Option<i32>) {
    let _ = STDIO_BROKEN.try_with(|c| c.set(errno));
}

thread_local! {
    static HARNESS_PRINTING: std::cell::Cell<bool> = const { std::cell::Cell::new(false) };
}

/// The harness's own protocol output (BEGIN/END/WORLD/STAGE lines) from a thread that is
/// currently a party: neither broken nor counted as output of the code under test.
pub fn harness_print<R>(f: impl FnOnce() -> R) -> R {
    let _ = HARNESS_PRINTING.try_with(|c| c.set(true));
    let r = f();
    let _ = HARNESS_PRINTING.try_with(|c| c.set(false));
    r
}

#[no_mangle]
pub unsafe extern "C" fn write(fd: i32, buf: *const libc::c_void, count: usize) -> isize {
    CALLS_WRITE.fetch_add(1, Ordering::Relaxed);
    if (fd == 1 || fd == 2) && !HARNESS_PRINTING.try_with(|c| c.get()).unwrap_or(false) {
        if let Ok(Some(e)) = STDIO_BROKEN.try_with(|c| c.get()) {
            STDIO_WRITES_BY_CODE_UNDER_TEST.fetch_add(1, Ordering::Relaxed);
            set_errno(e);
            return -1;
        }
        // discovery, like environment variables: a party that prints has "stdio:stdout" /
        // "stdio:stderr" recorded; for a party with that entry on its flip list the write fails
        // with EPIPE (the process's log pipe lost its reader)
        if let Some(flip) = PARTY_ENV.try_with(|e| e.try_borrow().ok().and_then(|b| b.clone())).ok().flatten() {
            let name = if fd == 1 { "stdio:stdout" } else { "stdio:stderr" };
            if let Ok(mut q) = ENV_QUERIED.lock() {
                q.insert(name.to_string());
            }
            if flip.iter().any(|f| f == name) {
                STDIO_WRITES_BY_CODE_UNDER_TEST.fetch_add(1, Ordering::Relaxed);
                set_errno(libc::EPIPE);
                return -1;
            }
        }
    }
    if !(fd >= 0 && (fd as usize) < MAX_FD && SIM_FD[fd as usize].load(Ordering::SeqCst)) {
        return libc::syscall(libc::SYS_write, fd, buf, count) as isize;
    }
    crate::sched::point();
    let mut w = world();
    let idx = w.n_write;
    w.n_write += 1;
    w.counters.writes += 1;
    let fail = |mut w: MutexGuard<'static, World>, act: u8, errno: i32| -> isize {
        w.ev(Ev { sys: b'w', idx, req: count as u64, act, ret: -(errno as i64) });
        drop(w);
        set_errno(errno);
        -1
    };
    if !w.fds.get(&fd).map(|f| f.writable).unwrap_or(false) {
        return fail(w, 0, libc::EBADF);
    }
    if let Some(e) = w.sticky_write {
        w.fire("write_after_sticky");
        return fail(w, 4, e);
    }
    let mut n = count;
    let mut act_code = 0u8;
    match w.plan.write.get(&idx).copied() {
        Some(Act::Short(k)) => {
            if count > 1 {
                n = k.clamp(1, count - 1);
                act_code = 1;
                w.fire("short_write");
            }
        }
        Some(Act::Eintr) => {
            w.fire("write_eintr");
            return fail(w, 2, libc::EINTR);
        }
        Some(Act::Err(e)) => {
            w.fire("write_err");
            return fail(w, 3, e);
        }
        Some(Act::ErrSticky(e)) => {
            w.fire("write_err_sticky");
            w.sticky_write = Some(e);
            return fail(w, 4, e);
        }
        None => {}
    }
    if let Some(cap) = w.plan.capacity {
        if cap == 0 && n > 0 {
            w.fire("enospc");
            return fail(w, 5, libc::ENOSPC);
        }
        if (n as u64) > cap {
            n = cap as usize;
            act_code = 5;
            w.fire("enospc_short");
        }
        w.plan.capacity = Some(cap - n as u64);
    }
    let data = std::slice::from_raw_parts(buf as *const u8, n);
    let (path, mut off, append) = {
        let f = w.fds.get(&fd).unwrap();
        (f.path.clone(), f.off, f.append)
    };
    let is_pipe = w.pipes.contains_key(&path);
    let img = w.disk.entry(path).or_default();
    if append || is_pipe {
        off = img.len();
    }
    if img.len() < off + n {
        img.resize(off + n, 0);
    }
    img[off..off + n].copy_from_slice(data);
    let touched = w.fds.get(&fd).map(|f| f.path.clone()).unwrap_or_default();
    w.touch(&touched);
    w.fds.get_mut(&fd).unwrap().off = off + n;
    w.counters.bytes_written += n as u64;
    w.ev(Ev { sys: b'w', idx, req: count as u64, act: act_code, ret: n as i64 });
    n as isize
}

#[no_mangle]
pub unsafe extern "C" fn read(fd: i32, buf: *mut libc::c_void, count: usize) -> isize {
    CALLS_READ.fetch_add(1, Ordering::Relaxed);
    if !(fd >= 0 && (fd as usize) < MAX_FD && SIM_FD[fd as usize].load(Ordering::SeqCst)) {
        return libc::syscall(libc::SYS_read, fd, buf, count) as isize;
    }
    crate::sched::point();
    let mut w = world();
    let idx = w.n_read;
    w.n_read += 1;
    w.counters.reads += 1;
    let fail = |mut w: MutexGuard<'static, World>, act: u8, errno: i32| -> isize {
        w.ev(Ev { sys: b'r', idx, req: count as u64, act, ret: -(errno as i64) });
        drop(w);
        set_errno(errno);
        -1
    };
    if !w.fds.get(&fd).map(|f| f.readable).unwrap_or(false) {
        return fail(w, 0, libc::EBADF);
    }
    if let Some(e) = w.sticky_read {
        return fail(w, 4, e);
    }
    let mut n = count;
    let mut act_code = 0u8;
    let (path, off) = {
        let f = w.fds.get(&fd).unwrap();
        (f.path.clone(), f.off)
    };
    let pipe_consumed = w.pipes.get(&path).copied();
    let off = pipe_consumed.unwrap_or(off);
    let avail = w.disk.get(&path).map(|i| i.len().saturating_sub(off)).unwrap_or(0);
    match w.plan.read.get(&idx).copied() {
        Some(Act::Short(k)) => {
            if count > 1 && avail > 1 {
                n = k.clamp(1, count.min(avail) - 1);
                act_code = 1;
                w.fire("short_read");
            }
        }
        Some(Act::Eintr) => {
            w.fire("read_eintr");
            return fail(w, 2, libc::EINTR);
        }
        Some(Act::Err(e)) => {
            w.fire("read_err");
            return fail(w, 3, e);
        }
        Some(Act::ErrSticky(e)) => {
            w.fire("read_err_sticky");
            w.sticky_read = Some(e);
            return fail(w, 4, e);
        }
        None => {}
    }
    n = n.min(avail);
    if n > 0 {
        let img = w.disk.get(&path).unwrap();
        std::ptr::copy_nonoverlapping(img[off..off + n].as_ptr(), buf as *mut u8, n);
    }
    w.fds.get_mut(&fd).unwrap().off = off + n;
    if pipe_consumed.is_some() {
        w.pipes.insert(path.clone(), off + n);
    }
    w.counters.bytes_read += n as u64;
    w.ev(Ev { sys: b'r', idx, req: count as u64, act: act_code, ret: n as i64 });
    n as isize
}

thread_local! {
    /// keys reserved for THIS thread (used when several parties run concurrently, so that the
    /// binding party <-> keys does not depend on which thread asks first)
    static THREAD_KEYS: std::cell::Cell<Option<(u64, u64)>> = const { std::cell::Cell::new(None) };
}

pub fn set_thread_keys(k0: u64, k1: u64) {
    let _ = THREAD_KEYS.try_with(|c| c.set(Some((k0, k1))));
}

#[no_mangle]
pub unsafe extern "C" fn getrandom(buf: *mut libc::c_void, buflen: usize, flags: libc::c_uint) -> isize {
    CALLS_GETRANDOM.fetch_add(1, Ordering::Relaxed);
    if buflen == 16 {
        if let Ok(Some((k0, k1))) = THREAD_KEYS.try_with(|c| c.take()) {
            let mut bytes = [0u8; 16];
            bytes[..8].copy_from_slice(&k0.to_ne_bytes());
            bytes[8..].copy_from_slice(&k1.to_ne_bytes());
            std::ptr::copy_nonoverlapping(bytes.as_ptr(), buf as *mut u8, 16);
            let mut w = world();
            w.keys_handed += 1;
            w.ev(Ev { sys: b'g', idx: 1, req: 16, act: 0, ret: 16 });
            return 16;
        }
    }
    {
        let mut w = world();
        if w.active && buflen == 16 {
            if let Some((k0, k1)) = w.keys.pop_front() {
                let mut bytes = [0u8; 16];
                bytes[..8].copy_from_slice(&k0.to_ne_bytes());
                bytes[8..].copy_from_slice(&k1.to_ne_bytes());
                std::ptr::copy_nonoverlapping(bytes.as_ptr(), buf as *mut u8, 16);
                w.keys_handed += 1;
                w.ev(Ev { sys: b'g', idx: 0, req: 16, act: 0, ret: 16 });
                return 16;
            }
        }
    }
    libc::syscall(libc::SYS_getrandom, buf, buflen, flags) as isize
}

// ---------------------------------------------------------------------------------------------
// the rest of the file API std may use on a simulated file: metadata, seek, sync, truncate.
// Without these a perfectly correct exporter/importer that calls sync_all(), metadata().len(),
// seek() or set_len() would see /dev/null's answers and be reported for it.
// ---------------------------------------------------------------------------------------------

fn is_sim_fd(fd: i32) -> bool {
    fd >= 0 && (fd as usize) < MAX_FD && SIM_FD[fd as usize].load(Ordering::SeqCst)
}

fn sim_mtime_of_fd(fd: i32) -> u64 {
    let w = world();
    w.fds.get(&fd).and_then(|f| w.mtimes.get(&f.path).copied()).unwrap_or(0)
}

fn sim_mtime_of_path(p: &str) -> u64 {
    world().mtimes.get(p).copied().unwrap_or(0)
}

fn sim_fd_len(fd: i32) -> Option<u64> {
    let mut w = world();
    let path = w.fds.get(&fd)?.path.clone();
    let real = w.disk.get(&path).map(|i| i.len()).unwrap_or(0) as u64;
    if let Some(lie) = w.plan.stat_size {
        w.fire("stat_size_lied");
        return Some(lie);
    }
    Some(real)
}

fn sim_path_len(p: &str) -> Option<u64> {
    let mut w = world();
    let real = w.disk.get(p).map(|i| i.len() as u64)?;
    if let Some(lie) = w.plan.stat_size {
        w.fire("stat_size_lied");
        return Some(lie);
    }
    Some(real)
}

unsafe fn fill_statx(buf: *mut libc::statx, len: u64, mtime: u64) {
    std::ptr::write_bytes(buf, 0, 1);
    (*buf).stx_mtime.tv_sec = mtime as i64;
    (*buf).stx_ctime.tv_sec = mtime as i64;
    (*buf).stx_atime.tv_sec = mtime as i64;
    (*buf).stx_mask = libc::STATX_BASIC_STATS;
    (*buf).stx_blksize = 4096;
    (*buf).stx_nlink = 1;
    (*buf).stx_mode = (libc::S_IFREG | 0o644) as u16;
    (*buf).stx_size = len;
    (*buf).stx_blocks = len.div_ceil(512);
}

#[no_mangle]
pub unsafe extern "C" fn statx(dirfd: i32, path: *const libc::c_char, flags: i32, mask: libc::c_uint, buf: *mut libc::statx) -> i32 {
    let empty = path.is_null() || *path == 0;
    if empty && is_sim_fd(dirfd) {
        if let Some(len) = sim_fd_len(dirfd) {
            fill_statx(buf, len, sim_mtime_of_fd(dirfd));
            if is_pipe_fd(dirfd) {
                (*buf).stx_mode = (libc::S_IFIFO | 0o644) as u16;
                (*buf).stx_size = 0;
            }
            return 0;
        }
    }
    if let Some(p) = path_of(path) {
        if is_sim_dir(&p) {
            fill_statx(buf, 4096, 0);
            (*buf).stx_mode = (libc::S_IFDIR | 0o755) as u16;
            return 0;
        }
        return match sim_path_len(&p) {
            Some(len) => {
                fill_statx(buf, len, sim_mtime_of_path(&p));
                if is_pipe_path(&p) {
                    (*buf).stx_mode = (libc::S_IFIFO | 0o644) as u16;
                    (*buf).stx_size = 0;
                }
                0
            }
            None => {
                set_errno(libc::ENOENT);
                -1
            }
        };
    }
    if !empty {
        if let Some(absent) = host_path_policy(path) {
            if absent {
                set_errno(libc::ENOENT);
                return -1;
            }
            fill_statx(buf, 0, 0);
            return 0;
        }
    }
    libc::syscall(libc::SYS_statx, dirfd, path, flags, mask, buf) as i32
}

unsafe fn fill_stat(buf: *mut libc::stat, len: u64, mtime: u64) {
    std::ptr::write_bytes(buf, 0, 1);
    (*buf).st_mtime = mtime as i64;
    (*buf).st_ctime = mtime as i64;
    (*buf).st_atime = mtime as i64;
    (*buf).st_mode = libc::S_IFREG | 0o644;
    (*buf).st_nlink = 1;
    (*buf).st_size = len as i64;
    (*buf).st_blksize = 4096;
    (*buf).st_blocks = len.div_ceil(512) as i64;
}

#[no_mangle]
pub unsafe extern "C" fn fstat(fd: i32, buf: *mut libc::stat) -> i32 {
    if is_sim_fd(fd) {
        if let Some(len) = sim_fd_len(fd) {
            fill_stat(buf, len, sim_mtime_of_fd(fd));
            if is_pipe_fd(fd) {
                (*buf).st_mode = libc::S_IFIFO | 0o644;
                (*buf).st_size = 0;
            }
            return 0;
        }
    }
    libc::syscall(libc::SYS_fstat, fd, buf) as i32
}

#[no_mangle]
pub unsafe extern "C" fn fstat64(fd: i32, buf: *mut libc::stat) -> i32 {
    // on x86_64 stat and stat64 have the same layout
    fstat(fd, buf)
}

unsafe fn stat_path(path: *const libc::c_char, buf: *mut libc::stat, nofollow: bool) -> i32 {
    if let Some(p) = path_of(path) {
        if is_sim_dir(&p) {
            fill_stat(buf, 4096, 0);
            (*buf).st_mode = libc::S_IFDIR | 0o755;
            return 0;
        }
        return match sim_path_len(&p) {
            Some(len) => {
                fill_stat(buf, len, sim_mtime_of_path(&p));
                if is_pipe_path(&p) {
                    (*buf).st_mode = libc::S_IFIFO | 0o644;
                    (*buf).st_size = 0;
                }
                0
            }
            None => {
                set_errno(libc::ENOENT);
                -1
            }
        };
    }
    if let Some(absent) = host_path_policy(path) {
        if absent {
            set_errno(libc::ENOENT);
            return -1;
        }
        fill_stat(buf, 0, 0);
        return 0;
    }
    libc::syscall(libc::SYS_newfstatat, libc::AT_FDCWD, path, buf, if nofollow { libc::AT_SYMLINK_NOFOLLOW } else { 0 }) as i32
}

#[no_mangle]
pub unsafe extern "C" fn stat(path: *const libc::c_char, buf: *mut libc::stat) -> i32 {
    stat_path(path, buf, false)
}
#[no_mangle]
pub unsafe extern "C" fn stat64(path: *const libc::c_char, buf: *mut libc::stat) -> i32 {
    stat_path(path, buf, false)
}
#[no_mangle]
pub unsafe extern "C" fn lstat(path: *const libc::c_char, buf: *mut libc::stat) -> i32 {
    stat_path(path, buf, true)
}
#[no_mangle]
pub unsafe extern "C" fn lstat64(path: *const libc::c_char, buf: *mut libc::stat) -> i32 {
    stat_path(path, buf, true)
}

unsafe fn sim_lseek(fd: i32, off: i64, whence: i32) -> i64 {
    let mut w = world();
    let Some(path) = w.fds.get(&fd).map(|f| f.path.clone()) else {
        drop(w);
        set_errno(libc::EBADF);
        return -1;
    };
    if w.pipes.contains_key(&path) {
        drop(w);
        set_errno(libc::ESPIPE);
        return -1;
    }
    let len = w.disk.get(&path).map(|i| i.len()).unwrap_or(0) as i64;
    let cur = w.fds.get(&fd).map(|f| f.off).unwrap_or(0) as i64;
    let new = match whence {
        libc::SEEK_SET => off,
        libc::SEEK_CUR => cur + off,
        libc::SEEK_END => len + off,
        _ => -1,
    };
    if new < 0 {
        drop(w);
        set_errno(libc::EINVAL);
        return -1;
    }
    w.fds.get_mut(&fd).unwrap().off = new as usize;
    w.ev(Ev { sys: b's', idx: 0, req: off as u64, act: whence as u8, ret: new });
    new
}

#[no_mangle]
pub unsafe extern "C" fn lseek(fd: i32, off: i64, whence: i32) -> i64 {
    if is_sim_fd(fd) {
        return sim_lseek(fd, off, whence);
    }
    libc::syscall(libc::SYS_lseek, fd, off, whence)
}
#[no_mangle]
pub unsafe extern "C" fn lseek64(fd: i32, off: i64, whence: i32) -> i64 {
    lseek(fd, off, whence)
}

unsafe fn sim_sync(fd: i32) -> i32 {
    crate::sched::point();
    if is_pipe_fd(fd) {
        // fsync(2): "EINVAL: fd is bound to a special file (e.g., a pipe, FIFO, or socket) which does not support synchronization"
        world().fire("fsync_on_pipe_einval");
        set_errno(libc::EINVAL);
        return -1;
    }
    let mut w = world();
    let idx = w.n_sync;
    w.n_sync += 1;
    if let Some(&errno) = w.plan.sync.get(&idx) {
        w.fire("fsync_err");
        w.ev(Ev { sys: b'y', idx, req: 0, act: 3, ret: -(errno as i64) });
        drop(w);
        set_errno(errno);
        return -1;
    }
    w.ev(Ev { sys: b'y', idx, req: 0, act: 0, ret: 0 });
    0
}

#[no_mangle]
pub unsafe extern "C" fn fsync(fd: i32) -> i32 {
    if is_sim_fd(fd) {
        return sim_sync(fd);
    }
    libc::syscall(libc::SYS_fsync, fd) as i32
}
#[no_mangle]
pub unsafe extern "C" fn fdatasync(fd: i32) -> i32 {
    if is_sim_fd(fd) {
        return sim_sync(fd);
    }
    libc::syscall(libc::SYS_fdatasync, fd) as i32
}

/// Advisory locks (`File::lock`, `lock_shared`, `try_lock`): a simulated file can be locked by
/// ANOTHER process for the whole world (`Plan::locked_by_other`). A blocking lock request would
/// then never return; the simulator cannot block forever, so it fails the call with EINTR and
/// records `flock_would_block_forever` (a finding: the operation hangs in that situation).
#[no_mangle]
pub unsafe extern "C" fn flock(fd: i32, op: i32) -> i32 {
    if !is_sim_fd(fd) {
        return libc::syscall(libc::SYS_flock, fd, op) as i32;
    }
    let mut w = world();
    if w.plan.locked_by_other && (op & libc::LOCK_UN) == 0 {
        if op & libc::LOCK_NB != 0 {
            w.fire("flock_would_block");
            drop(w);
            set_errno(libc::EWOULDBLOCK);
        } else {
            w.fire("flock_would_block_forever");
            drop(w);
            set_errno(libc::EINTR);
        }
        return -1;
    }
    w.fire("flock_granted");
    0
}

unsafe fn sim_truncate(fd: i32, len: i64) -> i32 {
    let mut w = world();
    let Some(path) = w.fds.get(&fd).map(|f| f.path.clone()) else {
        drop(w);
        set_errno(libc::EBADF);
        return -1;
    };
    if len < 0 || w.pipes.contains_key(&path) {
        drop(w);
        set_errno(libc::EINVAL);
        return -1;
    }
    w.disk.entry(path).or_default().resize(len as usize, 0);
    w.ev(Ev { sys: b't', idx: 0, req: len as u64, act: 0, ret: 0 });
    0
}

#[no_mangle]
pub unsafe extern "C" fn ftruncate(fd: i32, len: i64) -> i32 {
    if is_sim_fd(fd) {
        return sim_truncate(fd, len);
    }
    libc::syscall(libc::SYS_ftruncate, fd, len) as i32
}
#[no_mangle]
pub unsafe extern "C" fn ftruncate64(fd: i32, len: i64) -> i32 {
    ftruncate(fd, len)
}

// ---------------------------------------------------------------------------------------------
// thread creation: "the OS refuses to create another thread" as an injectable fault
// ---------------------------------------------------------------------------------------------

thread_local! {
    /// Some(k): the next k pthread_create calls from THIS thread succeed, all later ones fail with EAGAIN
    static REFUSE_THREADS: std::cell::Cell<Option<u32>> = const { std::cell::Cell::new(None) };
}
pub static THREADS_REFUSED: AtomicU64 = AtomicU64::new(0);
pub static THREADS_CREATED_BY_CODE_UNDER_TEST: AtomicU64 = AtomicU64::new(0);

pub fn refuse_threads(on: bool) {
    let _ = REFUSE_THREADS.try_with(|c| c.set(if on { Some(0) } else { None }));
}

/// The OS runs out of threads after `k` more have been created by this thread.
pub fn refuse_threads_after(k: Option<u32>) {
    let _ = REFUSE_THREADS.try_with(|c| c.set(k));
}

type PthreadCreate = unsafe extern "C" fn(
    *mut libc::pthread_t,
    *const libc::pthread_attr_t,
    extern "C" fn(*mut libc::c_void) -> *mut libc::c_void,
    *mut libc::c_void,
) -> i32;

static REAL_PTHREAD_CREATE: std::sync::atomic::AtomicUsize = std::sync::atomic::AtomicUsize::new(0);

#[no_mangle]
pub unsafe extern "C" fn pthread_create(
    thread: *mut libc::pthread_t,
    attr: *const libc::pthread_attr_t,
    start: extern "C" fn(*mut libc::c_void) -> *mut libc::c_void,
    arg: *mut libc::c_void,
) -> i32 {
    match REFUSE_THREADS.try_with(|c| c.get()).unwrap_or(None) {
        Some(0) => {
            THREADS_REFUSED.fetch_add(1, Ordering::Relaxed);
            return libc::EAGAIN;
        }
        Some(k) => {
            let _ = REFUSE_THREADS.try_with(|c| c.set(Some(k - 1)));
        }
        None => {}
    }
    if PARTY_CLOCK.try_with(|c| c.get().is_some()).unwrap_or(false) {
        // a thread created from inside a party = created by the code under test
        THREADS_CREATED_BY_CODE_UNDER_TEST.fetch_add(1, Ordering::Relaxed);
    }
    let mut f = REAL_PTHREAD_CREATE.load(Ordering::Relaxed);
    if f == 0 {
        f = libc::dlsym(libc::RTLD_NEXT, c"pthread_create".as_ptr()) as usize;
        REAL_PTHREAD_CREATE.store(f, Ordering::Relaxed);
    }
    if f == 0 {
        return libc::ENOSYS;
    }
    let real: PthreadCreate = std::mem::transmute(f);
    real(thread, attr, start, arg)
}

// ---------------------------------------------------------------------------------------------
// CPU count: how many CPUs may this process use (taskset, cgroup cpusets, small containers)?
// ---------------------------------------------------------------------------------------------

/// 0 = the real affinity mask; k > 0 = the process sees exactly k usable CPUs
pub static CPU_OVERRIDE: std::sync::atomic::AtomicUsize = std::sync::atomic::AtomicUsize::new(0);
pub static AFFINITY_QUERIES: AtomicU64 = AtomicU64::new(0);

#[no_mangle]
pub unsafe extern "C" fn sched_getaffinity(pid: libc::pid_t, size: usize, mask: *mut libc::cpu_set_t) -> i32 {
    let k = CPU_OVERRIDE.load(Ordering::Relaxed);
    if PARTY_CLOCK.try_with(|c| c.get().is_some()).unwrap_or(false) {
        AFFINITY_QUERIES.fetch_add(1, Ordering::Relaxed);
    }
    if k > 0 && !mask.is_null() && size > 0 {
        std::ptr::write_bytes(mask as *mut u8, 0, size);
        let bytes = mask as *mut u8;
        for cpu in 0..k.min(size * 8) {
            *bytes.add(cpu / 8) |= 1 << (cpu % 8);
        }
        return 0;
    }
    let r = libc::syscall(libc::SYS_sched_getaffinity, pid, size, mask);
    if r < 0 {
        return -1;
    }
    // the raw syscall returns the number of bytes written; the libc function returns 0 and zeroes the rest
    let written = r as usize;
    if written < size {
        std::ptr::write_bytes((mask as *mut u8).add(written), 0, size - written);
    }
    0
}

// ---------------------------------------------------------------------------------------------
// clock seam: inside a party, every clock the process can read is the simulated one
// ---------------------------------------------------------------------------------------------

thread_local! {
    /// Some((now_ns, step_ns)) while the current thread is a simulated party
    static PARTY_CLOCK: std::cell::Cell<Option<(u64, u64)>> = const { std::cell::Cell::new(None) };
}
pub static CLOCK_READS_IN_PARTIES: AtomicU64 = AtomicU64::new(0);

/// Enter party time: the thread's clocks start at `base_ns` (derived from the party's keys, so two
/// parties never agree on the time) and advance `step_ns` per reading: 1 microsecond for a fast
/// machine, up to a minute for a slow, stalled or clock-jumping one.
pub fn enter_party_clock(base_ns: u64, step_ns: u64) {
    let _ = PARTY_CLOCK.try_with(|c| c.set(Some((base_ns, step_ns.max(1)))));
}

pub fn leave_party_clock() {
    let _ = PARTY_CLOCK.try_with(|c| c.set(None));
}

thread_local! {
    /// the harness's own timing on a party thread (the scheduler's deadlock detector) reads the real clock
    static REAL_CLOCK: std::cell::Cell<bool> = const { std::cell::Cell::new(false) };
}

pub fn with_real_clock<R>(f: impl FnOnce() -> R) -> R {
    let _ = REAL_CLOCK.try_with(|c| c.set(true));
    let r = f();
    let _ = REAL_CLOCK.try_with(|c| c.set(false));
    r
}

#[no_mangle]
pub unsafe extern "C" fn clock_gettime(clk: libc::clockid_t, ts: *mut libc::timespec) -> i32 {
    if REAL_CLOCK.try_with(|c| c.get()).unwrap_or(false) {
        return libc::syscall(libc::SYS_clock_gettime, clk, ts) as i32;
    }
    if let Ok(Some((now, step))) = PARTY_CLOCK.try_with(|c| c.get()) {
        let _ = PARTY_CLOCK.try_with(|c| c.set(Some((now.saturating_add(step), step))));
        CLOCK_READS_IN_PARTIES.fetch_add(1, Ordering::Relaxed);
        if !ts.is_null() {
            let t = now;
            (*ts).tv_sec = (t / 1_000_000_000) as libc::time_t;
            (*ts).tv_nsec = (t % 1_000_000_000) as libc::c_long;
        }
        return 0;
    }
    libc::syscall(libc::SYS_clock_gettime, clk, ts) as i32
}

// ---------------------------------------------------------------------------------------------
// environment seam: which variables does the code under test ask for, and what if the answer differs?
// ---------------------------------------------------------------------------------------------

extern "C" {
    static environ: *const *const libc::c_char;
}

thread_local! {
    /// Some(names to flip) while the current thread is a simulated party
    static PARTY_ENV: std::cell::RefCell<Option<Vec<String>>> = const { std::cell::RefCell::new(None) };
}
/// every variable name a party asked for (discovery); drained by the harness
static ENV_QUERIED: Mutex<std::collections::BTreeSet<String>> = Mutex::new(std::collections::BTreeSet::new());
static FLIPPED_VALUE: [u8; 2] = *b"1\0";

pub fn enter_party_env(flip: Vec<String>) {
    let _ = PARTY_ENV.try_with(|e| *e.borrow_mut() = Some(flip));
}

pub fn leave_party_env() {
    let _ = PARTY_ENV.try_with(|e| *e.borrow_mut() = None);
}

pub fn take_env_queries() -> Vec<String> {
    std::mem::take(&mut *ENV_QUERIED.lock().unwrap_or_else(|e| e.into_inner())).into_iter().collect()
}

unsafe fn real_getenv(name: &[u8]) -> *mut libc::c_char {
    if environ.is_null() {
        return std::ptr::null_mut();
    }
    let mut p = environ;
    while !(*p).is_null() {
        let entry = CStr::from_ptr(*p).to_bytes();
        if entry.len() > name.len() && &entry[..name.len()] == name && entry[name.len()] == b'=' {
            return (*p).add(name.len() + 1) as *mut libc::c_char;
        }
        p = p.add(1);
    }
    std::ptr::null_mut()
}

/// `getenv` as std calls it. Outside a party: the real environment. Inside a party: the name is
/// recorded, and a variable on the party's flip list reads as set ("1") if it is really unset and
/// as unset if it is really set — "the same program in a process with a different environment".
#[no_mangle]
pub unsafe extern "C" fn getenv(name: *const libc::c_char) -> *mut libc::c_char {
    if name.is_null() {
        return std::ptr::null_mut();
    }
    let n = CStr::from_ptr(name).to_bytes();
    let real = real_getenv(n);
    let policy = PARTY_ENV.try_with(|e| e.try_borrow().ok().and_then(|b| b.clone())).ok().flatten();
    if let Some(flip) = policy {
        let ns = String::from_utf8_lossy(n).into_owned();
        let flipped = flip.iter().any(|f| *f == ns);
        // std itself asks for RUST_BACKTRACE / RUST_LIB_BACKTRACE / RUST_MIN_STACK once per process
        // (first panic, first thread): those are not the code under test
        if !ns.starts_with("RUST_") && !ns.starts_with("VERIF_") {
            if let Ok(mut q) = ENV_QUERIED.lock() {
                q.insert(ns);
            }
        }
        if flipped {
            return if real.is_null() { FLIPPED_VALUE.as_ptr() as *mut libc::c_char } else { std::ptr::null_mut() };
        }
    }
    real
}

// ---------------------------------------------------------------------------------------------
// liveness self-test: fail closed (harness error) if std stops calling the interposed symbols
// ---------------------------------------------------------------------------------------------

pub fn liveness_selftest() -> Result<(), String> {
    use std::io::{BufRead, Read, Write};
    reset_world();
    // 1. hash keys steer HashMap iteration order, per thread
    let order_for = |k0: u64, k1: u64| -> Vec<u32> {
        push_keys(k0, k1);
        std::thread::spawn(|| {
            let mut m = std::collections::HashMap::new();
            for i in 0..64u32 {
                m.insert(i, ());
            }
            m.keys().copied().collect::<Vec<_>>()
        })
        .join()
        .unwrap()
    };
    let g0 = CALLS_GETRANDOM.load(Ordering::Relaxed);
    let a = order_for(1, 2);
    let b = order_for(1, 2);
    let c = order_for(0xdead_beef, 77);
    if CALLS_GETRANDOM.load(Ordering::Relaxed) < g0 + 3 {
        return Err("getrandom seam dead: std did not call the interposed getrandom".into());
    }
    if a != b {
        return Err("getrandom seam: same keys gave different HashMap orders".into());
    }
    if a == c {
        return Err("getrandom seam: different keys gave the same HashMap order".into());
    }
    if !world().keys.is_empty() {
        return Err("getrandom seam: keys were not consumed".into());
    }
    // 2. File::create / write go through the disk
    let p = sim_path("selftest.txt");
    let w0 = CALLS_WRITE.load(Ordering::Relaxed);
    {
        let mut f = std::fs::File::create(&p).map_err(|e| format!("open seam dead: {e}"))?;
        write!(f, "hello ").map_err(|e| e.to_string())?;
        writeln!(f, "world").map_err(|e| e.to_string())?;
    }
    if CALLS_WRITE.load(Ordering::Relaxed) < w0 + 2 {
        return Err("write seam dead".into());
    }
    if disk_get("/SIMDISK/selftest.txt").as_deref() != Some(b"hello world\n".as_slice()) {
        return Err("write seam: simulated disk does not hold the written bytes".into());
    }
    if !world().fds.is_empty() {
        return Err("close seam dead: fd table not empty after drop".into());
    }
    // 3. read path + transparent faults + injected EIO / ENOSPC surface as io::Error
    let mut plan = Plan::default();
    plan.read.insert(0, Act::Short(3));
    plan.read.insert(1, Act::Eintr);
    install_plan(plan);
    let mut s = String::new();
    std::io::BufReader::new(std::fs::File::open(&p).map_err(|e| e.to_string())?)
        .read_line(&mut s)
        .map_err(|e| format!("transparent read faults were not transparent: {e}"))?;
    if s != "hello world\n" {
        return Err(format!("read seam returned {s:?}"));
    }
    let mut plan = Plan::default();
    plan.read.insert(0, Act::Err(libc::EIO));
    install_plan(plan);
    let mut v = Vec::new();
    match std::fs::File::open(&p).and_then(|mut f| f.read_to_end(&mut v)) {
        Err(e) if e.raw_os_error() == Some(libc::EIO) => {}
        other => return Err(format!("injected EIO did not surface: {other:?}")),
    }
    let mut plan = Plan::default();
    plan.capacity = Some(4);
    install_plan(plan);
    match std::fs::File::create(&p).and_then(|mut f| f.write_all(b"0123456789")) {
        Err(e) if e.raw_os_error() == Some(libc::ENOSPC) => {}
        other => return Err(format!("injected ENOSPC did not surface: {other:?}")),
    }
    if disk_get("/SIMDISK/selftest.txt").as_deref() != Some(b"0123".as_slice()) {
        return Err("capacity limit: wrong image".into());
    }
    let mut plan = Plan::default();
    plan.open.insert(0, libc::EACCES);
    install_plan(plan);
    match std::fs::File::open(&p) {
        Err(e) if e.raw_os_error() == Some(libc::EACCES) => {}
        other => return Err(format!("injected open error did not surface: {other:?}")),
    }
    match std::fs::File::open(sim_path("does-not-exist")) {
        Err(e) if e.kind() == std::io::ErrorKind::NotFound => {}
        other => return Err(format!("missing file: {other:?}")),
    }
    // 3b. rename / remove_file on simulated paths
    install_plan(Plan::default());
    std::fs::write(sim_path("a.tmp"), b"x").map_err(|e| format!("write: {e}"))?;
    std::fs::rename(sim_path("a.tmp"), sim_path("a.txt")).map_err(|e| format!("rename seam dead: {e}"))?;
    if disk_get("/SIMDISK/a.txt").as_deref() != Some(b"x".as_slice()) || disk_get("/SIMDISK/a.tmp").is_some() {
        return Err("rename seam: wrong disk state".into());
    }
    std::fs::remove_file(sim_path("a.txt")).map_err(|e| format!("unlink seam dead: {e}"))?;
    if disk_get("/SIMDISK/a.txt").is_some() {
        return Err("unlink seam: file still there".into());
    }
    // 3b'. metadata, seek, sync, set_len on a simulated file
    {
        use std::io::{Seek, SeekFrom};
        install_plan(Plan::default());
        std::fs::write(sim_path("m.txt"), b"0123456789").map_err(|e| e.to_string())?;
        let md = std::fs::metadata(sim_path("m.txt")).map_err(|e| format!("stat seam dead: {e}"))?;
        if md.len() != 10 || !md.is_file() {
            return Err(format!("stat seam: metadata says len {} is_file {}", md.len(), md.is_file()));
        }
        let mut f = std::fs::OpenOptions::new().read(true).write(true).open(sim_path("m.txt")).map_err(|e| e.to_string())?;
        if f.metadata().map(|m| m.len()).ok() != Some(10) {
            return Err("fstat/statx seam dead: File::metadata does not see the simulated length".into());
        }
        if f.seek(SeekFrom::End(-3)).ok() != Some(7) {
            return Err("lseek seam dead".into());
        }
        let mut tail = String::new();
        f.read_to_string(&mut tail).map_err(|e| e.to_string())?;
        if tail != "789" {
            return Err(format!("lseek seam: read {tail:?} after seeking"));
        }
        f.sync_all().map_err(|e| format!("fsync seam dead: sync_all on a simulated file failed: {e}"))?;
        f.set_len(4).map_err(|e| format!("ftruncate seam dead: {e}"))?;
        if disk_get("/SIMDISK/m.txt").as_deref() != Some(b"0123".as_slice()) {
            return Err("ftruncate seam: wrong image".into());
        }
        let mut plan = Plan::default();
        plan.sync.insert(0, libc::EIO);
        install_plan(plan);
        match f.sync_data() {
            Err(e) if e.raw_os_error() == Some(libc::EIO) => {}
            other => return Err(format!("injected fsync error did not surface: {other:?}")),
        }
        install_plan(Plan::default());
        if std::fs::read_to_string(sim_path("m.txt")).ok().as_deref() != Some("0123") {
            return Err("read_to_string on a simulated file".into());
        }
    }
    // 3b''. thread creation can be refused (and works otherwise: this test already spawned threads)
    refuse_threads(true);
    let refused = std::thread::Builder::new().spawn(|| ()).is_err();
    refuse_threads(false);
    let allowed = std::thread::Builder::new().spawn(|| 7).map(|h| h.join().ok()).ok().flatten() == Some(7);
    if !refused || !allowed {
        return Err(format!("pthread_create seam: refused={refused} allowed={allowed}"));
    }
    // 3b-cpu. CPU count seam
    let real_cpus = std::thread::available_parallelism().map(|n| n.get()).unwrap_or(0);
    CPU_OVERRIDE.store(2, Ordering::Relaxed);
    let two = std::thread::available_parallelism().map(|n| n.get()).unwrap_or(0);
    CPU_OVERRIDE.store(0, Ordering::Relaxed);
    let again = std::thread::available_parallelism().map(|n| n.get()).unwrap_or(0);
    if real_cpus == 0 || again != real_cpus || (real_cpus >= 2 && two != 2) {
        return Err(format!("sched_getaffinity seam: real {real_cpus}, overridden to 2 -> {two}, restored -> {again}"));
    }
    // 3c. clock seam: inside a party the clocks are simulated, outside they are real
    let real0 = std::time::SystemTime::now().duration_since(std::time::UNIX_EPOCH).map(|d| d.as_secs()).unwrap_or(0);
    enter_party_clock(1_234_567_000_000_000, 1_000);
    let sim = std::time::SystemTime::now().duration_since(std::time::UNIX_EPOCH).map(|d| d.as_secs()).unwrap_or(0);
    let i0 = std::time::Instant::now();
    let i1 = std::time::Instant::now();
    leave_party_clock();
    if sim != 1_234_567 {
        return Err(format!("clock seam dead: SystemTime inside a party read {sim}, expected the simulated 1234567"));
    }
    if i1.duration_since(i0) != std::time::Duration::from_micros(1) {
        return Err("clock seam: Instant did not advance by the simulated microsecond".into());
    }
    let real1 = std::time::SystemTime::now().duration_since(std::time::UNIX_EPOCH).map(|d| d.as_secs()).unwrap_or(0);
    if real0 < 1_600_000_000 || real1 < real0 {
        return Err("clock seam: real clock not restored outside a party".into());
    }
    // 3d. environment seam
    let path_real = std::env::var_os("PATH");
    enter_party_env(vec!["GARBLE_SIM_SELFTEST_UNSET_VARIABLE".into(), "PATH".into()]);
    let flipped_on = std::env::var("GARBLE_SIM_SELFTEST_UNSET_VARIABLE").ok();
    let flipped_off = std::env::var_os("PATH");
    let untouched = std::env::var_os("HOME");
    leave_party_env();
    let q = take_env_queries();
    if flipped_on.as_deref() != Some("1") || (path_real.is_some() && flipped_off.is_some()) {
        return Err("environment seam dead: std::env::var did not go through the interposed getenv".into());
    }
    if untouched != std::env::var_os("HOME") || !q.iter().any(|n| n == "PATH") {
        return Err("environment seam: pass-through or discovery broken".into());
    }
    // 4. non-simulated paths still reach the real kernel
    match std::fs::read("/proc/self/comm") {
        Ok(v) if !v.is_empty() => {}
        other => return Err(format!("pass-through open/read broken: {other:?}")),
    }
    reset_world();
    take_fired();
    Ok(())
}
