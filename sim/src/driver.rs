//! `garble-sim check <property> <tier>`: supervise the run, prove determinism on a sample,
//! classify violations against the known-findings file, write replay files and evidence.

use crate::supervise::*;
use crate::workload::verif_dir;
use std::collections::BTreeMap;
use std::io::Write;
use std::time::Instant;

pub struct PropertyDef {
    pub id: &'static str,
    pub level: &'static str,
    pub rule: &'static str,
    pub assumptions: Vec<String>,
    pub components: serde_json::Value,
    /// a worker process dying inside a case is itself a violation (abort / stack overflow in code
    /// that must never crash) — true for C11/C16, false for C06
    pub crash_is_violation: bool,
    pub n_cases: u64,
    pub determinism_sample: u64,
    /// a harness-level inconsistency found before the run (e.g. the fidelity batch): reported as
    /// HARNESS-ERROR (exit 2) only if the run itself finds no violation that explains it
    pub deferred_error: Option<String>,
}

pub struct Known {
    pub known: Vec<(String, String, String)>, // (property, signature, what)
    pub fixed: Vec<String>,
}

pub fn load_known() -> Known {
    let mut k = Known { known: vec![], fixed: vec![] };
    let path = verif_dir().join("known_findings.txt");
    let Ok(t) = std::fs::read_to_string(path) else { return k };
    for line in t.lines() {
        let line = line.trim();
        if let Some(rest) = line.strip_prefix("known:") {
            let rest = rest.trim();
            let mut prop = String::new();
            let mut sig = String::new();
            let mut what = vec![];
            for tok in rest.split_whitespace() {
                if let Some(p) = tok.strip_prefix("property=") {
                    prop = p.to_string();
                } else if let Some(s) = tok.strip_prefix("signature=") {
                    sig = s.to_string();
                } else {
                    what.push(tok);
                }
            }
            if !prop.is_empty() && !sig.is_empty() {
                k.known.push((prop, sig, what.join(" ")));
            }
        } else if line.starts_with("fixed:") {
            k.fixed.push(line.to_string());
        }
    }
    k
}

fn write_replay(id: &str, seed: u64, idx: u64, n: usize, v: &serde_json::Value) -> String {
    let dir = verif_dir().join("replays");
    let _ = std::fs::create_dir_all(&dir);
    let path = dir.join(format!("{id}-{seed}-{idx}-{n}.json"));
    let _ = std::fs::write(&path, serde_json::to_string_pretty(v).unwrap());
    path.display().to_string()
}

/// Re-execute a replay file in a fresh process; true if it reproduces a violation.
pub fn confirm_replay_once(path: &str) -> Option<bool> {
    let exe = std::env::current_exe().ok()?;
    let out = std::process::Command::new(exe).arg("replay").arg(path).output().ok()?;
    match out.status.code() {
        Some(1) => Some(true),
        Some(0) => Some(false),
        _ => None,
    }
}

pub fn confirm_replay(path: &str) -> Option<bool> {
    let exe = std::env::current_exe().ok()?;
    // up to three fresh processes: they differ in address-space layout, which is the one thing a
    // replay file cannot pin down; a deterministic violation reproduces at the first attempt
    let mut last = None;
    for _ in 0..3 {
        let out = std::process::Command::new(&exe).arg("replay").arg(path).output().ok()?;
        match out.status.code() {
            Some(1) => return Some(true),
            Some(0) => last = Some(false),
            _ => return None,
        }
    }
    last
}

pub fn run_check(def: &PropertyDef, tier: &str, seed: u64) -> i32 {
    let t0 = Instant::now();
    let mut deferred: Vec<String> = def.deferred_error.iter().cloned().collect();
    println!("VERIF_SEED={seed} property={} tier={tier}", def.id);
    if let Err(e) = crate::seams::liveness_selftest() {
        println!("HARNESS-ERROR: seam liveness self-test failed: {e}");
        return 2;
    }
    let workers = worker_count();
    let spec = PoolSpec { property: def.id.into(), tier: tier.into(), seed, from: 0, to: def.n_cases, workers, twice: false, trace: false };
    let pool = match run_pool(&spec) {
        Ok(p) => p,
        Err(e) => {
            println!("HARNESS-ERROR: {e}");
            return 2;
        }
    };
    let mut m = merge(&pool.results, 12);

    // ---- determinism proof: sample re-run twice in-process, in fresh processes, other worker count
    let ds = def.determinism_sample.min(def.n_cases);
    let mut det_checked = 0u64;
    if ds > 0 {
        let stride = (def.n_cases / ds).max(1);
        // contiguous ranges are cheap to express; use stride by running the range [0, n) with a
        // different worker count restricted to sampled indices via several small pools
        let mut idxs: Vec<u64> = (0..def.n_cases).step_by(stride as usize).take(ds as usize).collect();
        idxs.dedup();
        let spec2 = |from: u64, to: u64| PoolSpec {
            property: def.id.into(),
            tier: tier.into(),
            seed,
            from,
            to,
            workers: 3,
            twice: true,
            trace: false,
        };
        // group sampled indices into runs of single cases, executed by a 3-worker pool each
        let handles: Vec<_> = idxs
            .chunks((idxs.len() / 8).max(1))
            .map(|chunk| {
                let chunk = chunk.to_vec();
                let specs: Vec<PoolSpec> = chunk.iter().map(|&i| spec2(i, i + 1)).collect();
                std::thread::spawn(move || {
                    let mut out = vec![];
                    for s in specs {
                        out.push((s.from, run_pool(&PoolSpec { workers: 1, ..s })));
                    }
                    out
                })
            })
            .collect();
        for h in handles {
            for (i, r) in h.join().unwrap() {
                match r {
                    Ok(pr) => {
                        // crashed cases have no digest on either side
                        if let (Some(a), Some(b)) = (pr.results.get(&i), m.digests.get(&i)) {
                            det_checked += 1;
                            if &a.digest != b {
                                // deferred: state leaking between cases of one worker process is
                                // itself a symptom the property checks may explain (exit 1 then)
                                deferred.push(format!(
                                    "nondeterminism: case {i} digest {} (in the {}-worker pool) vs {} (fresh process)",
                                    b, workers, a.digest
                                ));
                            }
                        }
                    }
                    Err(e) => {
                        // deferred like the digest mismatch above: a reproducible violation may explain it
                        deferred.push(e);
                    }
                }
            }
        }
    }

    // ---- crashes
    let mut crash_violations: Vec<(u64, Violation)> = vec![];
    for c in &pool.crashes {
        *m.counters.entry("worker_crashes".into()).or_insert(0) += 1;
        // confirm in a fresh process, in trace mode: the worker announces every world before running it
        let again = run_pool(&PoolSpec { property: def.id.into(), tier: tier.into(), seed, from: c.idx, to: c.idx + 1, workers: 1, twice: false, trace: true });
        let again_crash = match &again {
            Ok(p) => p.crashes.first().cloned(),
            Err(_) => None,
        };
        println!(
            "NOTE: worker died in case {} ({}); fresh-process re-run {}: {}",
            c.idx,
            c.status,
            if again_crash.is_some() { "died again" } else { "did not die" },
            c.stderr_tail.lines().last().unwrap_or("")
        );
        let Some(ac) = again_crash else {
            println!("HARNESS-ERROR: a worker death did not reproduce in a fresh process (case {})", c.idx);
            return 2;
        };
        if def.crash_is_violation {
            let world: serde_json::Value = ac.last_world.as_deref().and_then(|w| serde_json::from_str(w).ok()).unwrap_or(serde_json::Value::Null);
            let last = c
                .stderr_tail
                .lines()
                .rev()
                .find(|l| l.contains("memory allocation") || l.contains("overflow") || l.contains("panicked") || l.contains("fatal"))
                .or(c.stderr_tail.lines().last())
                .unwrap_or("")
                .to_string();
            let replay = serde_json::json!({
                "property": def.id, "class": "process_died", "verif_seed": seed, "case": c.idx, "tier": tier,
                "world": world,
                "observed": { "status": c.status, "stderr_tail": c.stderr_tail },
            });
            crash_violations.push((
                c.idx,
                Violation {
                    property: def.id.into(),
                    class: "process_died".into(),
                    signature: format!("process_died:{}", c.status.replace(' ', "_")),
                    what: format!("the process aborted / was killed while running this world: {} {}", c.status, last),
                    replay,
                },
            ));
        }
    }
    m.violations.extend(crash_violations);

    // ---- classify violations
    let known = load_known();
    let mut new_violations = 0u64;
    let mut known_hits: BTreeMap<String, u64> = BTreeMap::new();
    let mut reported: BTreeMap<String, u64> = BTreeMap::new();
    let mut history_attempts = 0;
    for (n, (idx, v)) in m.violations.iter().enumerate() {
        if let Some((_, sig, what)) = known.known.iter().find(|(p, s, _)| p == def.id && *s == v.signature) {
            *known_hits.entry(format!("{sig} {what}")).or_insert(0) += 1;
            continue;
        }
        new_violations += 1;
        let c = reported.entry(v.signature.clone()).or_insert(0);
        *c += 1;
        if *c > 3 {
            continue; // at most three replay files per signature
        }
        let path = write_replay(def.id, seed, *idx, n, &v.replay);
        let mut confirmed = confirm_replay(&path);
        let mut history_note = String::new();
        if confirmed == Some(false) && history_attempts < 3 {
            // The world alone does not reproduce in a fresh process. The worker that found it was
            // a long-lived process: re-create ITS history — the cases of the same shard that ran
            // before — in a fresh process, doubling the length of the history suffix until the
            // violation shows again. Exact, but it can be slow; attempted for a few findings only.
            history_attempts += 1;
            let shard = idx % workers as u64;
            let before = idx / workers as u64; // number of earlier cases in the shard
            let mut len = 1u64;
            loop {
                let l = len.min(before);
                let first = idx - l * workers as u64;
                let hv = serde_json::json!({
                    "property": def.id, "class": v.class, "signature": v.signature, "verif_seed": seed,
                    "by_worker_history": { "tier": tier, "seed": seed, "nshards": workers, "shard": shard, "first": first, "last": idx },
                    "world_that_disagreed": v.replay.get("world"),
                    "observed": v.replay.get("observed"),
                });
                let _ = std::fs::write(&path, serde_json::to_string_pretty(&hv).unwrap());
                if confirm_replay_once(&path) == Some(true) {
                    confirmed = Some(true);
                    history_note = format!(" [only in a process that ran the {l} preceding cases of its worker shard: {}..{} step {}]", first, idx, workers);
                    break;
                }
                if l >= before || l >= 4096 {
                    break;
                }
                len *= 2;
            }
        }
        if confirmed == Some(false) {
            // a disagreement that a fresh process cannot reproduce from its replay file is not
            // reported as a violation: it is evidence of state leaking between cases of a worker
            // process (deferred: harness error unless a reproducible violation explains it)
            let _ = std::fs::remove_file(&path);
            new_violations -= 1;
            *c -= 1;
            deferred.push(format!("case {idx}: {} ({}) did not reproduce from its replay file in a fresh process", v.class, v.what));
            continue;
        }
        println!("VIOLATION property={} replay={}", def.id, path);
        println!(
            "  class={} signature={} replay_in_fresh_process={}",
            v.class,
            v.signature,
            match confirmed {
                Some(true) => "reproduced",
                Some(false) => "DID-NOT-REPRODUCE",
                None => "error",
            }
        );
        println!("  {}{}", v.what, history_note);
    }
    for (k, n) in &known_hits {
        println!("KNOWN-FINDING: property={} {} (hit {} times)", def.id, k, n);
    }
    for (sig, n) in &reported {
        if *n > 3 {
            println!("  ({} further violations with signature {} not written out)", n - 3, sig);
        }
    }

    // ---- evidence
    let wall = t0.elapsed().as_secs_f64();
    let runs_per_hour = if wall > 0.0 { (m.cases as f64 / wall * 3600.0) as u64 } else { 0 };
    let evals_per_hour = if wall > 0.0 { (m.evaluations as f64 / wall * 3600.0) as u64 } else { 0 };
    let sets: BTreeMap<String, usize> = m.sets.iter().map(|(k, v)| (k.clone(), v.len())).collect();
    let evidence = serde_json::json!({
        "property_id": def.id,
        "tier": if tier == "thorough" { "thorough" } else { "quick" },
        "seed": seed,
        "level": def.level,
        "coverage": {
            "evaluations": m.evaluations.max(m.cases),
            "distinct_nontrivial": m.nontrivial.len(),
            "rule": def.rule,
            "samples": m.samples,
            "simulated_runs": m.cases,
            "runs_per_hour": runs_per_hour,
            "executions_per_hour": evals_per_hour,
            "seeds_per_hour_note": "one VERIF_SEED per invocation; every case derives its own PRNG stream from (VERIF_SEED, family, case index), so runs_per_hour is also the number of independent PRNG streams per hour",
            "simulated_time": "every party runs on a simulated clock (start time and speed derived from its keys; every clock read advances the party clock by 1 us, 1 ms, 1 s or 60 s depending on the party, so a party may see hours pass during one call), but the library on this tree asks for the time zero times (see the clock_reads counters): no simulated time is consumed by the code under test, and no timeout or deadline exists whose expiry could be covered",
            "case_families": m.families,
            "counters": m.counters,
            "distinct_sets": sets,
            "determinism": { "cases_rerun_twice_in_process_and_in_fresh_process": det_checked, "worker_counts_compared": [workers, 1], "divergences": deferred.len() },
            "components": def.components,
            "workers": workers,
            "known_findings_hit": known_hits,
            "fixed_findings_on_record": known.fixed,
        },
        "assumptions": def.assumptions,
        "wall_s": wall,
        "violations": new_violations,
    });
    let edir = verif_dir().join("evidence");
    let _ = std::fs::create_dir_all(&edir);
    let epath = edir.join(format!("{}.json", def.id));
    if let Err(e) = std::fs::write(&epath, serde_json::to_string_pretty(&evidence).unwrap()) {
        println!("HARNESS-ERROR: cannot write evidence: {e}");
        return 2;
    }
    println!(
        "property={} tier={tier} cases={} executions={} distinct_nontrivial={} violations={} known_findings={} wall={:.1}s",
        def.id,
        m.cases,
        m.evaluations,
        m.nontrivial.len(),
        new_violations,
        known_hits.len(),
        wall
    );
    let _ = std::io::stdout().flush();
    if new_violations > 0 {
        for d in deferred.iter().take(3) {
            println!("NOTE: {}", d.chars().take(400).collect::<String>());
        }
        1
    } else if !deferred.is_empty() {
        for d in deferred.iter().take(3) {
            println!("HARNESS-ERROR: {}", d.chars().take(600).collect::<String>());
        }
        2
    } else {
        0
    }
}
