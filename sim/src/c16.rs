//! C16 — a circuit that passes validation can be evaluated safely.
//! World: a sender serialises an honest circuit (serde_json of circuit::Circuit,
//! register_circuit::Circuit, CircuitType; or Bristol text on the simulated disk), the
//! channel/storage damages the message, the receiver deserialises / imports, validates and — only
//! if validation accepts — evaluates. Oracle: the executable reference in circ_ref.rs.

use crate::c11::{apply_corruption, Corruption};
use crate::circ_ref;
use crate::gen;
use crate::prng::{tag, Digest, Prng};
use crate::seams::{self, Plan};
use crate::supervise::{CaseResult, Violation};
use crate::workload::*;
use garble_lang::circuit::Circuit;
use garble_lang::circuit_type::CircuitType;
use garble_lang::register_circuit as rc;
use serde::{Deserialize, Serialize};
use std::collections::{BTreeMap, BTreeSet};

#[derive(Clone, Copy, Debug, Serialize, Deserialize, PartialEq, Eq)]
#[serde(rename_all = "snake_case")]
pub enum Channel {
    JsonSsa,
    JsonReg,
    /// serde_json of CircuitType (the enum wrapper), holding the SSA or the register form
    JsonTypeSsa,
    JsonTypeReg,
    Bristol,
}

#[derive(Clone, Debug, Serialize, Deserialize, PartialEq, Eq)]
#[serde(rename_all = "snake_case")]
pub enum MsgFault {
    BitFlip { off: usize, bit: u8 },
    DigitSubst { off: usize, digit: u8 },
    ByteDup { off: usize },
    ByteDel { off: usize },
    Truncate { len: usize },
    /// replace the k-th number token of the JSON text
    NumReplace { index: usize, with: String },
    /// replace the k-th number token v by a value derived from it: v+delta (saturating at 0) or v^xor
    NumShift { index: usize, delta: i64, xor: u64 },
    /// duplicate / lose the k-th array element (document order over all arrays): a message
    /// fragment delivered twice / dropped
    ElemDup { index: usize },
    ElemDrop { index: usize },
    /// the k-th array arrives empty (all fragments lost)
    ArrayClear { index: usize },
    /// only the first `keep` elements of the k-th array arrive (tail fragments lost)
    ArrayTruncate { index: usize, keep: usize },
    /// the k-th object field (document order over all objects) is missing from the message
    FieldDrop { index: usize },
    /// replace the n-th number token counted from the START of the gate / instruction list
    ProgramNumReplace { index: usize, with: String },
    /// the last element of the gate / instruction list arrives `times` more times (duplicated fragment)
    TailElemDup { times: usize },
    /// replace the n-th number token counted BACKWARDS from the end of the gate / instruction list
    /// (cheap on messages of tens of megabytes; damage in the last gates of a large circuit)
    TailNumReplace { nth_from_end: usize, with: String },
    /// replace the k-th occurrence of a gate/op name
    NameReplace { index: usize, with: String },
    /// storage-level damage of Bristol text
    Disk(Corruption),
}

fn number_tokens(msg: &[u8]) -> Vec<(usize, usize)> {
    // maximal digit runs outside strings
    let mut out = vec![];
    let mut i = 0;
    let mut in_str = false;
    while i < msg.len() {
        let b = msg[i];
        if in_str {
            if b == b'\\' {
                i += 1;
            } else if b == b'"' {
                in_str = false;
            }
            i += 1;
            continue;
        }
        if b == b'"' {
            in_str = true;
            i += 1;
            continue;
        }
        if b.is_ascii_digit() {
            let s = i;
            while i < msg.len() && msg[i].is_ascii_digit() {
                i += 1;
            }
            out.push((s, i));
            continue;
        }
        i += 1;
    }
    out
}

const NAMES: &[&str] = &["Xor", "And", "Not", "Input", "Ssa", "Register"];

fn name_occurrences(msg: &[u8]) -> Vec<(usize, usize)> {
    let mut out = vec![];
    for n in NAMES {
        let pat = format!("\"{n}\"");
        let pb = pat.as_bytes();
        let mut i = 0;
        while i + pb.len() <= msg.len() {
            if &msg[i..i + pb.len()] == pb {
                out.push((i + 1, i + 1 + n.len()));
                i += pb.len();
            } else {
                i += 1;
            }
        }
    }
    out.sort();
    out
}

fn walk_objects(v: &mut serde_json::Value, f: &mut dyn FnMut(&mut serde_json::Map<String, serde_json::Value>)) {
    match v {
        serde_json::Value::Array(a) => {
            for x in a.iter_mut() {
                walk_objects(x, f);
            }
        }
        serde_json::Value::Object(o) => {
            f(o);
            for (_, x) in o.iter_mut() {
                walk_objects(x, f);
            }
        }
        _ => {}
    }
}

pub fn field_census(msg: &[u8]) -> usize {
    let Ok(mut v) = serde_json::from_slice::<serde_json::Value>(msg) else { return 0 };
    let mut n = 0;
    walk_objects(&mut v, &mut |o| n += o.len());
    n
}

fn walk_arrays(v: &mut serde_json::Value, f: &mut dyn FnMut(&mut Vec<serde_json::Value>)) {
    match v {
        serde_json::Value::Array(a) => {
            f(a);
            for x in a.iter_mut() {
                walk_arrays(x, f);
            }
        }
        serde_json::Value::Object(o) => {
            for (_, x) in o.iter_mut() {
                walk_arrays(x, f);
            }
        }
        _ => {}
    }
}

/// (first global element index, length, elements are objects) of every array in document order.
pub fn array_layout(msg: &[u8]) -> Vec<(usize, usize, bool)> {
    let Ok(mut v) = serde_json::from_slice::<serde_json::Value>(msg) else { return vec![] };
    let mut out = vec![];
    let mut k = 0;
    walk_arrays(&mut v, &mut |a| {
        out.push((k, a.len(), a.first().map(|e| e.is_object()).unwrap_or(false)));
        k += a.len();
    });
    out
}

/// Index of the number token that is the value of `"field":`.
fn field_token(msg: &[u8], field: &str) -> Option<usize> {
    let pat = format!("\"{field}\":");
    let pos = msg.windows(pat.len()).position(|w| w == pat.as_bytes())? + pat.len();
    number_tokens(msg).iter().position(|&(s, _)| s >= pos)
}

/// Count (arrays, elements) for sweep enumeration.
pub fn array_census(msg: &[u8]) -> (usize, usize) {
    let Ok(mut v) = serde_json::from_slice::<serde_json::Value>(msg) else { return (0, 0) };
    let mut na = 0;
    let mut ne = 0;
    walk_arrays(&mut v, &mut |a| {
        na += 1;
        ne += a.len();
    });
    (na, ne)
}

pub fn apply_fault(msg: &mut Vec<u8>, f: &MsgFault) -> bool {
    let before = msg.clone();
    match f {
        MsgFault::BitFlip { off, bit } => {
            if let Some(b) = msg.get_mut(*off) {
                *b ^= 1 << (bit % 8);
            }
        }
        MsgFault::DigitSubst { off, digit } => {
            if let Some(b) = msg.get_mut(*off) {
                if b.is_ascii_digit() {
                    *b = b'0' + (digit % 10);
                }
            }
        }
        MsgFault::ByteDup { off } => {
            if let Some(&b) = msg.get(*off) {
                msg.insert(*off, b);
            }
        }
        MsgFault::ByteDel { off } => {
            if *off < msg.len() {
                msg.remove(*off);
            }
        }
        MsgFault::Truncate { len } => msg.truncate(*len),
        MsgFault::NumReplace { index, with } => {
            let toks = number_tokens(msg);
            if let Some(&(s, e)) = toks.get(*index) {
                msg.splice(s..e, with.bytes());
            }
        }
        MsgFault::NumShift { index, delta, xor } => {
            let toks = number_tokens(msg);
            if let Some(&(s, e)) = toks.get(*index) {
                if let Some(v) = std::str::from_utf8(&msg[s..e]).ok().and_then(|t| t.parse::<u64>().ok()) {
                    let nv = if *xor != 0 { v ^ xor } else if *delta < 0 { v.saturating_sub(delta.unsigned_abs()) } else { v.saturating_add(*delta as u64) };
                    msg.splice(s..e, nv.to_string().bytes());
                }
            }
        }
        MsgFault::NameReplace { index, with } => {
            let occ = name_occurrences(msg);
            if let Some(&(s, e)) = occ.get(*index) {
                msg.splice(s..e, with.bytes());
            }
        }
        MsgFault::ProgramNumReplace { index, with } => {
            let find = |pat: &[u8]| msg.windows(pat.len()).position(|w| w == pat);
            if let Some(start) = find(b"\"gates\":[").or_else(|| find(b"\"insts\":[")) {
                let mut i = start;
                let mut seen = 0usize;
                while i < msg.len() {
                    while i < msg.len() && !msg[i].is_ascii_digit() {
                        i += 1;
                    }
                    let b0 = i;
                    while i < msg.len() && msg[i].is_ascii_digit() {
                        i += 1;
                    }
                    if b0 == i {
                        break;
                    }
                    if seen == *index {
                        msg.splice(b0..i, with.bytes());
                        break;
                    }
                    seen += 1;
                }
            }
        }
        MsgFault::TailElemDup { times } => {
            let find = |pat: &[u8]| msg.windows(pat.len()).rposition(|w| w == pat);
            if let Some(end) = find(b"],\"output_gates\"").or_else(|| find(b"],\"max_reg_count\"")) {
                // the last element starts at the last '{' at nesting depth 0 before `end`
                let mut depth = 0i32;
                let mut i = end;
                let mut start = None;
                while i > 0 {
                    i -= 1;
                    match msg[i] {
                        b'}' => depth += 1,
                        b'{' => {
                            depth -= 1;
                            if depth == 0 {
                                start = Some(i);
                                break;
                            }
                        }
                        _ => {}
                    }
                }
                if let Some(st) = start {
                    let elem: Vec<u8> = msg[st..end].to_vec();
                    let mut ins = vec![];
                    for _ in 0..*times {
                        ins.push(b',');
                        ins.extend_from_slice(&elem);
                    }
                    msg.splice(end..end, ins);
                }
            }
        }
        MsgFault::TailNumReplace { nth_from_end, with } => {
            // end of the program array: just before `],"output_gates"` (SSA) or `],"max_reg_count"` (register)
            let find = |pat: &[u8]| msg.windows(pat.len()).rposition(|w| w == pat);
            if let Some(end) = find(b"],\"output_gates\"").or_else(|| find(b"],\"max_reg_count\"")) {
                let mut i = end;
                let mut seen = 0usize;
                while i > 0 {
                    // scan backwards for digit runs
                    while i > 0 && !msg[i - 1].is_ascii_digit() {
                        i -= 1;
                    }
                    if i == 0 {
                        break;
                    }
                    let e = i;
                    while i > 0 && msg[i - 1].is_ascii_digit() {
                        i -= 1;
                    }
                    if seen == *nth_from_end {
                        msg.splice(i..e, with.bytes());
                        break;
                    }
                    seen += 1;
                    if seen > 64 {
                        break;
                    }
                }
            }
        }
        MsgFault::FieldDrop { index } => {
            if let Ok(mut v) = serde_json::from_slice::<serde_json::Value>(msg) {
                let mut k = 0usize;
                let mut done = false;
                walk_objects(&mut v, &mut |o| {
                    if done {
                        return;
                    }
                    if *index >= k && *index < k + o.len() {
                        let key = o.keys().nth(*index - k).cloned();
                        if let Some(key) = key {
                            o.remove(&key);
                        }
                        done = true;
                    }
                    k += o.len();
                });
                if done {
                    *msg = serde_json::to_vec(&v).unwrap_or_default();
                }
            }
        }
        MsgFault::ArrayTruncate { index, keep } => {
            if let Ok(mut v) = serde_json::from_slice::<serde_json::Value>(msg) {
                let mut k = 0usize;
                walk_arrays(&mut v, &mut |a| {
                    if k == *index {
                        a.truncate(*keep);
                    }
                    k += 1;
                });
                *msg = serde_json::to_vec(&v).unwrap_or_default();
            }
        }
        MsgFault::ElemDup { index } | MsgFault::ElemDrop { index } | MsgFault::ArrayClear { index } => {
            if let Ok(mut v) = serde_json::from_slice::<serde_json::Value>(msg) {
                let mut k = 0usize;
                let mut done = false;
                walk_arrays(&mut v, &mut |a| {
                    if done {
                        return;
                    }
                    match f {
                        MsgFault::ArrayClear { .. } => {
                            if k == *index {
                                a.clear();
                                done = true;
                            }
                            k += 1;
                        }
                        _ => {
                            if *index >= k && *index < k + a.len() {
                                let i = *index - k;
                                if matches!(f, MsgFault::ElemDup { .. }) {
                                    let e = a[i].clone();
                                    a.insert(i, e);
                                } else {
                                    a.remove(i);
                                }
                                done = true;
                            }
                            k += a.len();
                        }
                    }
                });
                if done {
                    *msg = serde_json::to_vec(&v).unwrap_or_default();
                }
            }
        }
        MsgFault::Disk(c) => {
            apply_corruption(msg, c);
        }
    }
    *msg != before
}

#[derive(Clone, Debug, Serialize, Deserialize, PartialEq, Eq)]
pub struct World {
    pub program: Option<ProgSpec>,
    #[serde(default = "yes")]
    pub dedup: bool,
    pub keys: Keys,
    pub channel: Channel,
    #[serde(default)]
    pub faults: Vec<MsgFault>,
    /// explicit message bytes (minimised worlds); the program is then ignored
    #[serde(default)]
    pub raw_message: Option<Vec<u8>>,
    /// the receiver's history: messages it received, validated and evaluated earlier on the same
    /// thread (a long-lived receiver). Their own verdicts are not judged here.
    #[serde(default)]
    pub prior: Vec<World>,
    /// resource fault on the receiver: while it validates and evaluates, the OS refuses to create
    /// threads (pthread_create fails with EAGAIN)
    #[serde(default)]
    pub no_threads: bool,
    /// Some(k): the first k thread creations succeed, then the OS refuses
    #[serde(default)]
    pub threads_refused_after: Option<u32>,
    /// environment variables that read differently in the receiving process (discovered at run
    /// time: whatever the receiver asked getenv for); only honoured by the child-process receiver
    #[serde(default)]
    pub env_flip: Vec<String>,
    /// Some(errno): the receiving process's stdout / stderr cannot be written
    #[serde(default)]
    pub stdio_broken: Option<i32>,
    /// Some(kind): before this message arrives, ANOTHER caller in the receiving process uses the
    /// library in a way its documentation says panics (eval with the wrong number of parties or
    /// bits; the panic is caught, as a server isolating a bad request would). Part of the
    /// process's history: it must not spoil later, well-formed calls.
    #[serde(default)]
    pub misuse_before: Option<u8>,
    /// Some(k): the receiver validates and evaluates on a thread whose stack has k KiB (musl's
    /// default for threads is 128 KiB; Rust's 2 MiB; the harness's own threads have far more).
    /// Only honoured by the child-process receiver: running out of stack kills the process.
    #[serde(default)]
    pub stack_kib: Option<u32>,
    /// the circuit values this world's receiver deserialises are ALSO handed to a receiver built
    /// the way a downstream engine builds the library: default cargo features only (no `serde`),
    /// `cargo build --release` (crate /verif/plain); it gets the values in a flat text encoding
    #[serde(default)]
    pub plain_build: bool,
}

/// The documented panics of both `eval` functions, provoked on a tiny valid circuit and caught.
/// kind & 1: wrong number of parties, kind & 2: wrong number of bits, kind & 4: on another thread.
fn documented_misuse(kind: u8, obs: &mut Obs) {
    use garble_lang::circuit::Gate;
    let ssa = Circuit { input_gates: vec![1, 1], gates: vec![Gate::Xor(0, 1)], output_gates: vec![2] };
    let reg = guarded(|| rc::Circuit::from(&ssa)).ok();
    let mut shapes: Vec<Vec<Vec<bool>>> = vec![];
    if kind & 1 != 0 {
        shapes.push(vec![vec![true]]);
        shapes.push(vec![]);
    }
    if kind & 2 != 0 || shapes.is_empty() {
        shapes.push(vec![vec![true], vec![]]);
        shapes.push(vec![vec![true, false], vec![true]]);
    }
    for sh in shapes {
        let (s2, r2, sh2) = (ssa.clone(), reg.clone(), sh.clone());
        let body = move || {
            let a = guarded(|| s2.eval(&sh2)).is_err() as u64;
            let b = r2.as_ref().map(|r| guarded(|| r.eval(&sh2)).is_err() as u64).unwrap_or(0);
            a + b
        };
        let n = if kind & 4 != 0 { std::thread::spawn(body).join().unwrap_or(0) } else { body() };
        *obs.counters.entry("documented_panics_provoked_before_message".into()).or_insert(0) += n;
    }
}

fn yes() -> bool {
    true
}

#[derive(Clone, Debug)]
pub struct Finding {
    pub class: String,
    pub signature: String,
    pub what: String,
}

#[derive(Default, Clone, Debug)]
pub struct Obs {
    pub findings: Vec<Finding>,
    pub counters: BTreeMap<String, u64>,
    pub executions: u64,
    pub damaged_values: Vec<u64>,
    pub summary: String,
    pub accepted_damaged: bool,
    /// every circuit value this receiver deserialised (not huge ones), and whether it is honest
    pub plain_values: Vec<(CircuitType, bool)>,
}

fn bump(c: &mut BTreeMap<String, u64>, k: &str) {
    *c.entry(k.to_string()).or_insert(0) += 1;
}

fn eval_inputs(parties: &[usize], seedtag: u64) -> Vec<Vec<Vec<bool>>> {
    let mut p = Prng::new(seedtag);
    let mk = |f: &mut dyn FnMut() -> bool| -> Vec<Vec<bool>> { parties.iter().map(|&n| (0..n).map(|_| f()).collect()).collect() };
    vec![mk(&mut || false), mk(&mut || true), mk(&mut || p.chance(1, 2)), mk(&mut || p.chance(1, 2))]
}

/// Circuits that declare huge sizes are handed to a child process (`c16-child`) that runs under
/// RLIMIT_AS = 1 GiB and RLIMIT_CPU = 10 s and reports each stage before entering it, so that an
/// abort or a runaway loop inside validate() (= not accepted, fine) can be told apart from one
/// inside eval() after validate() accepted (= violation).
pub fn child_main() -> i32 {
    use std::io::{Read, Write};
    let mut t = String::new();
    if std::io::stdin().read_to_string(&mut t).is_err() {
        return 2;
    }
    let Ok(w) = serde_json::from_str::<World>(&t) else { return 2 };
    unsafe {
        let lim = libc::rlimit { rlim_cur: 1 << 30, rlim_max: 1 << 30 };
        libc::setrlimit(libc::RLIMIT_AS, &lim);
        let cpu = libc::rlimit { rlim_cur: 10, rlim_max: 10 };
        libc::setrlimit(libc::RLIMIT_CPU, &cpu);
        let z = libc::rlimit { rlim_cur: 0, rlim_max: 0 };
        libc::setrlimit(libc::RLIMIT_CORE, &z);
    }
    let broken = w.stdio_broken;
    let say = |s: &str| {
        // the stage protocol itself must get through: stdio is only broken for the code under test
        seams::harness_print(|| {
            let o = std::io::stdout();
            let mut o = o.lock();
            let _ = writeln!(o, "STAGE {s}");
            let _ = o.flush();
        });
    };
    seams::reset_world();
    seams::enter_party_env(w.env_flip.clone());
    seams::break_stdio(broken);
    // rebuild the damaged message exactly as the parent did
    let Some(msg) = damaged_message(&w) else { return 0 };
    let small_inputs = |parties: &[usize]| circ_ref::total_bits(parties).map(|b| b <= MAX_EVAL_BITS).unwrap_or(false);
    let seedtag = tag(w.program.as_ref().map(|p| p.src.as_str()).unwrap_or("raw"));
    let run_reg = |c: &rc::Circuit| {
        say("validate_start");
        match guarded(|| c.validate()) {
            Ok(Ok(())) => say("validate_ok"),
            _ => {
                say("validate_not_ok");
                return;
            }
        }
        if small_inputs(&c.input_regs) {
            for iv in eval_inputs(&c.input_regs, seedtag) {
                say("eval_start");
                match guarded(|| c.eval(&iv)) {
                    Ok(out) => say(&format!("eval_ok {}", out.len() == c.output_regs.len())),
                    Err(m) => {
                        say(&format!("eval_panicked {m}"));
                        return;
                    }
                }
            }
        }
        say("done");
    };
    let run_ssa = |c: &Circuit| {
        say("validate_start");
        match guarded(|| c.validate()) {
            Ok(Ok(())) => say("validate_ok"),
            _ => {
                say("validate_not_ok");
                return;
            }
        }
        if small_inputs(&c.input_gates) {
            for iv in eval_inputs(&c.input_gates, seedtag) {
                say("eval_start");
                match guarded(|| c.eval(&iv)) {
                    Ok(out) => say(&format!("eval_ok {}", out.len() == c.output_gates.len())),
                    Err(m) => {
                        say(&format!("eval_panicked {m}"));
                        return;
                    }
                }
            }
        }
        say("done");
    };
    let receive_all = || match w.channel {
        Channel::JsonSsa => {
            if let Ok(c) = serde_json::from_slice::<Circuit>(&msg) {
                run_ssa(&c)
            }
        }
        Channel::JsonReg => {
            if let Ok(c) = serde_json::from_slice::<rc::Circuit>(&msg) {
                run_reg(&c)
            }
        }
        Channel::JsonTypeSsa | Channel::JsonTypeReg => match serde_json::from_slice::<CircuitType>(&msg) {
            Ok(CircuitType::Ssa(c)) => run_ssa(&c),
            Ok(CircuitType::Register(c)) => run_reg(&c),
            Err(_) => {}
        },
        Channel::Bristol => {}
    };
    match w.stack_kib {
        None => receive_all(),
        Some(k) => {
            let flips = w.env_flip.clone();
            std::thread::scope(|sc| {
                let h = std::thread::Builder::new().stack_size(k as usize * 1024).spawn_scoped(sc, || {
                    seams::enter_party_env(flips);
                    seams::break_stdio(broken);
                    receive_all()
                });
                if let Ok(h) = h {
                    let _ = h.join();
                }
            });
        }
    }
    0
}

/// The message a world's receiver sees (honest message + faults), or None if there is no subject.
fn damaged_message(w: &World) -> Option<Vec<u8>> {
    let mut msg = if let Some(raw) = &w.raw_message {
        raw.clone()
    } else {
        let (ssa, reg) = compile_both(w.program.as_ref()?, w.dedup).ok()?;
        honest_message(&ssa, &reg, w.channel).ok()?
    };
    for f in &w.faults {
        apply_fault(&mut msg, f);
    }
    Some(msg)
}

/// Parent side: run a world whose circuit declares huge sizes in a child and turn the stages it
/// reported into findings.
fn huge_via_child(w: &World, kind: &str, obs: &mut Obs) {
    use std::io::Write;
    bump(&mut obs.counters, "huge_circuits_run_in_child");
    let Ok(exe) = std::env::current_exe() else { return };
    let single = World { prior: vec![], ..w.clone() };
    let Ok(mut child) = child_command(exe)
        .arg("c16-child")
        .env("RUST_BACKTRACE", "0")
        .stdin(std::process::Stdio::piped())
        .stdout(std::process::Stdio::piped())
        .stderr(std::process::Stdio::null())
        .spawn()
    else {
        return;
    };
    let _ = child.stdin.take().unwrap().write_all(serde_json::to_string(&single).unwrap().as_bytes());
    let Ok(out) = child.wait_with_output() else { return };
    let text = String::from_utf8_lossy(&out.stdout).to_string();
    let stages: Vec<&str> = text.lines().filter_map(|l| l.strip_prefix("STAGE ")).collect();
    let accepted = stages.iter().any(|s| *s == "validate_ok");
    let finished = stages.last().map(|s| *s == "done" || *s == "validate_not_ok").unwrap_or(true);
    obs.executions += 1;
    let honest = w.faults.is_empty() && w.raw_message.is_none() && w.channel != Channel::Bristol;
    if !accepted {
        bump(&mut obs.counters, "huge_not_accepted");
        if honest && stages.last() == Some(&"validate_start") {
            obs.findings.push(Finding {
                class: "validate_rejects_honest".into(),
                signature: format!("validate_rejects_honest:{kind}:process_died"),
                what: format!("the receiving process died inside validate() of a circuit produced by the compiler/converter ({}; stack of the calling thread: {:?} KiB)", out.status, w.stack_kib),
            });
        }
        return;
    }
    bump(&mut obs.counters, "huge_accepted");
    obs.accepted_damaged = true;
    if let Some(p) = stages.iter().find_map(|s| s.strip_prefix("eval_panicked ")) {
        obs.findings.push(Finding {
            class: "eval_panicked".into(),
            signature: format!("eval_panicked:{kind}@{}", panic_site(p)),
            what: format!("validate() accepted a {kind} circuit with huge declared sizes but eval() on inputs of the declared shape panicked: {p}"),
        });
    } else if stages.iter().any(|s| *s == "eval_ok false") {
        obs.findings.push(Finding {
            class: "eval_wrong_output_count".into(),
            signature: format!("eval_wrong_output_count:{kind}"),
            what: "eval returned a different number of bits than declared outputs".into(),
        });
    } else if !finished && stages.last() == Some(&"eval_start") {
        obs.findings.push(Finding {
            class: "eval_panicked".into(),
            signature: format!("eval_aborted:{kind}"),
            what: format!(
                "validate() accepted a {kind} circuit, then the receiving process died inside eval() on inputs of the declared shape ({}; 1 GiB address space, 10 s CPU, stack of the calling thread: {} KiB)",
                out.status,
                w.stack_kib.map(|k| k.to_string()).unwrap_or("harness default (>= 64 MiB)".into())
            ),
        });
    }
}

const MAX_VALIDATE_BITS: usize = 1 << 26;
const MAX_EVAL_BITS: usize = 1 << 20;

/// Receiver side for an SSA circuit value. `honest`: the value is a compiler / converter output.
fn inspect_ssa(c: &Circuit, honest: bool, obs: &mut Obs, seedtag: u64, also_convert: bool) {
    let bits = circ_ref::total_bits(&c.input_gates);
    let huge = bits.map(|b| b > MAX_VALIDATE_BITS).unwrap_or(true) || c.gates.len() > MAX_VALIDATE_BITS;
    if huge {
        bump(&mut obs.counters, "skipped_huge");
        return;
    }
    let v = guarded(|| c.validate());
    obs.executions += 1;
    match v {
        Err(m) => {
            bump(&mut obs.counters, "ssa_validate_panicked");
            if honest {
                obs.findings.push(Finding {
                    class: "validate_rejects_honest".into(),
                    signature: format!("validate_rejects_honest:ssa:panic@{}", panic_site(&m)),
                    what: format!("validate() panicked on a circuit produced by the compiler: {m}"),
                });
            }
        }
        Ok(Err(e)) => {
            bump(&mut obs.counters, &format!("ssa_rejected_{}", format!("{e:?}").split('(').next().unwrap_or("")));
            if also_convert && !honest && bits.unwrap_or(usize::MAX) <= MAX_EVAL_BITS {
                // an engine that converts first and validates the register form afterwards: the
                // conversion of a rejected SSA circuit may panic (that is its business), but a
                // register circuit it does return is just another circuit value: accepted => safe
                match guarded(|| rc::Circuit::from(c)) {
                    Err(_) => bump(&mut obs.counters, "conversion_panicked_on_rejected_ssa"),
                    Ok(r) => {
                        bump(&mut obs.counters, "converted_rejected_ssa_to_register");
                        inspect_reg(&r, false, obs, seedtag);
                    }
                }
            }
            if honest {
                // the one shape with its own signature: a program none of whose parties supplies an input bit
                let no_bits = bits == Some(0);
                obs.findings.push(Finding {
                    class: "validate_rejects_honest".into(),
                    signature: format!(
                        "validate_rejects_honest:ssa:{}{}",
                        format!("{e:?}").split('(').next().unwrap_or(""),
                        if no_bits { ":program_without_any_input_bit" } else { "" }
                    ),
                    what: format!(
                        "validate() rejected a circuit produced by the compiler/converter: {e:?}{}",
                        if no_bits { " (the accepted program has parties but not a single input bit, e.g. `pub fn main(a: ()) -> bool { true }`; the constant gates Xor(0,0)/Not(0) then refer to themselves)" } else { "" }
                    ),
                });
            }
        }
        Ok(Ok(())) => {
            bump(&mut obs.counters, "ssa_accepted");
            if !honest {
                obs.accepted_damaged = true;
            }
            if let Some((code, why)) = circ_ref::unsafe_ssa(c) {
                obs.findings.push(Finding {
                    class: "validate_accepts_unsafe".into(),
                    signature: format!("validate_accepts_unsafe:{code}"),
                    what: format!("SSA validate() accepted a circuit that is not safe to evaluate: {why}"),
                });
            }
            if bits.unwrap_or(usize::MAX) <= MAX_EVAL_BITS {
                for iv in eval_inputs(&c.input_gates, seedtag) {
                    obs.executions += 1;
                    match guarded(|| c.eval(&iv)) {
                        Err(m) => {
                            obs.findings.push(Finding {
                                class: "eval_panicked".into(),
                                signature: format!("eval_panicked:ssa@{}", panic_site(&m)),
                                what: format!("validate() accepted the SSA circuit but eval() on inputs of the declared shape panicked: {m}"),
                            });
                            break;
                        }
                        Ok(out) => {
                            if out.len() != c.output_gates.len() {
                                obs.findings.push(Finding {
                                    class: "eval_wrong_output_count".into(),
                                    signature: "eval_wrong_output_count:ssa".into(),
                                    what: format!("eval returned {} bits for {} declared outputs", out.len(), c.output_gates.len()),
                                });
                                break;
                            }
                            if circ_ref::eval_ssa(c, &iv).as_deref() != Some(out.as_slice()) {
                                bump(&mut obs.counters, "ssa_eval_differs_from_reference_evaluator");
                            }
                        }
                    }
                }
                if also_convert && c.gates.len() <= 300_000 {
                    // "validation accepts every circuit produced by the SSA-to-register conversion"
                    match guarded(|| rc::Circuit::from(c)) {
                        Err(_) => bump(&mut obs.counters, "conversion_panicked_on_accepted_ssa"),
                        Ok(r) => {
                            bump(&mut obs.counters, "converted_to_register");
                            inspect_reg(&r, true, obs, seedtag);
                        }
                    }
                }
            } else {
                bump(&mut obs.counters, "skipped_large_eval");
            }
        }
    }
}

fn inspect_reg(c: &rc::Circuit, honest: bool, obs: &mut Obs, seedtag: u64) {
    let bits = circ_ref::total_bits(&c.input_regs);
    let huge = bits.map(|b| b > MAX_VALIDATE_BITS).unwrap_or(true) || c.max_reg_count > (1 << 28) || c.insts.len() > MAX_VALIDATE_BITS;
    if huge {
        bump(&mut obs.counters, "skipped_huge");
        return;
    }
    let v = guarded(|| c.validate());
    obs.executions += 1;
    match v {
        Err(m) => {
            bump(&mut obs.counters, "reg_validate_panicked");
            if honest {
                obs.findings.push(Finding {
                    class: "validate_rejects_honest".into(),
                    signature: format!("validate_rejects_honest:reg:panic@{}", panic_site(&m)),
                    what: format!("register validate() panicked on a compiler/converter output: {m}"),
                });
            }
        }
        Ok(Err(e)) => {
            bump(&mut obs.counters, &format!("reg_rejected_{}", format!("{e:?}").split('(').next().unwrap_or("")));
            if honest {
                obs.findings.push(Finding {
                    class: "validate_rejects_honest".into(),
                    signature: format!("validate_rejects_honest:reg:{}", format!("{e:?}").split('(').next().unwrap_or("")),
                    what: format!("register validate() rejected a circuit produced by the compiler/converter: {e:?}"),
                });
            }
        }
        Ok(Ok(())) => {
            bump(&mut obs.counters, "reg_accepted");
            if !honest {
                obs.accepted_damaged = true;
            }
            if let Some((code, why)) = circ_ref::unsafe_reg(c) {
                obs.findings.push(Finding {
                    class: "validate_accepts_unsafe".into(),
                    signature: format!("validate_accepts_unsafe:{code}"),
                    what: format!("register validate() accepted a circuit that is not safe to evaluate: {why}"),
                });
            }
            if bits.unwrap_or(usize::MAX) <= MAX_EVAL_BITS {
                for iv in eval_inputs(&c.input_regs, seedtag) {
                    obs.executions += 1;
                    match guarded(|| c.eval(&iv)) {
                        Err(m) => {
                            obs.findings.push(Finding {
                                class: "eval_panicked".into(),
                                signature: format!("eval_panicked:reg@{}", panic_site(&m)),
                                what: format!("validate() accepted the register circuit but eval() on inputs of the declared shape panicked: {m}"),
                            });
                            break;
                        }
                        Ok(out) => {
                            if out.len() != c.output_regs.len() {
                                obs.findings.push(Finding {
                                    class: "eval_wrong_output_count".into(),
                                    signature: "eval_wrong_output_count:reg".into(),
                                    what: format!("eval returned {} bits for {} declared outputs", out.len(), c.output_regs.len()),
                                });
                                break;
                            }
                            if circ_ref::eval_reg(c, &iv).as_deref() != Some(out.as_slice()) {
                                bump(&mut obs.counters, "reg_eval_differs_from_reference_evaluator");
                            }
                        }
                    }
                }
            } else {
                bump(&mut obs.counters, "skipped_large_eval");
            }
        }
    }
}

fn compile_both(prog: &ProgSpec, dedup: bool) -> Result<(Circuit, Option<rc::Circuit>), String> {
    let consts = build_consts(&prog.consts, &[], 0);
    let ssa = match guarded(|| compile_src(&prog.src, "main", consts, Opts { register: false, dedup }, false)) {
        Ok(Ok(ct)) => ct.unwrap_ssa(),
        Ok(Err(e)) => return Err(format!("{e:?}").chars().take(80).collect()),
        Err(m) => return Err(m),
    };
    // a converter panic (C10's business) must not hide the SSA circuit from this check
    let reg = guarded(|| rc::Circuit::from(&ssa)).ok();
    Ok((ssa, reg))
}

fn value_hash(kind: u8, flat: &[u64]) -> u64 {
    let mut d = Digest::new();
    d.u64(kind as u64);
    for x in flat {
        d.u64(*x);
    }
    d.finish().0
}

/// Sender side: the honest message for a channel.
fn honest_message(ssa: &Circuit, reg: &Option<rc::Circuit>, ch: Channel) -> Result<Vec<u8>, String> {
    let need_reg = || reg.as_ref().ok_or("SSA-to-register conversion panicked".to_string());
    match ch {
        Channel::JsonSsa => serde_json::to_vec(ssa).map_err(|e| e.to_string()),
        Channel::JsonReg => serde_json::to_vec(need_reg()?).map_err(|e| e.to_string()),
        Channel::JsonTypeSsa => serde_json::to_vec(&CircuitType::Ssa(ssa.clone())).map_err(|e| e.to_string()),
        Channel::JsonTypeReg => serde_json::to_vec(&CircuitType::Register(need_reg()?.clone())).map_err(|e| e.to_string()),
        Channel::Bristol => {
            seams::install_plan(Plan::default());
            let p = seams::sim_path("msg.bristol.txt");
            match guarded(|| ssa.format_as_bristol(&p)) {
                Ok(Ok(())) => seams::disk_get("/SIMDISK/msg.bristol.txt").ok_or("no file".to_string()),
                Ok(Err(e)) => Err(format!("{e:?}")),
                Err(m) => Err(m),
            }
        }
    }
}

thread_local! {
    /// the receiving engine's own compilation of the program both sides agreed on (type-checked
    /// program + main function: what `Evaluator` needs besides the circuit it was sent)
    static ENGINE_PROGRAM: std::cell::RefCell<Option<(String, Option<std::rc::Rc<garble_lang::GarbleProgram>>)>> = const { std::cell::RefCell::new(None) };
}

fn engine_literal(ty: &garble_lang::ast::Type, mode: u8, p: &mut Prng) -> Option<garble_lang::literal::Literal> {
    use garble_lang::ast::Type;
    use garble_lang::literal::Literal;
    use garble_lang::token::{SignedNumType as S, UnsignedNumType as U};
    let bit = |p: &mut Prng| match mode {
        0 => false,
        1 => true,
        _ => p.chance(1, 2),
    };
    Some(match ty {
        Type::Bool => {
            if bit(p) {
                Literal::True
            } else {
                Literal::False
            }
        }
        Type::Unsigned(u) => {
            let (max, _) = match u {
                U::U8 => (u8::MAX as u64, 8),
                U::U16 => (u16::MAX as u64, 16),
                U::U32 | U::Usize => (u32::MAX as u64, 32),
                U::U64 => (u64::MAX, 64),
                U::Unspecified => return None,
            };
            let v = match mode {
                0 => 0,
                1 => max,
                _ => p.next_u64() & max,
            };
            Literal::NumUnsigned(v, *u)
        }
        Type::Signed(sg) => {
            let (min, max) = match sg {
                S::I8 => (i8::MIN as i64, i8::MAX as i64),
                S::I16 => (i16::MIN as i64, i16::MAX as i64),
                S::I32 => (i32::MIN as i64, i32::MAX as i64),
                S::I64 => (i64::MIN, i64::MAX),
                S::Unspecified => return None,
            };
            let v = match mode {
                0 => 0,
                1 => -1,
                _ => (p.next_u64() as i64).clamp(min, max),
            };
            Literal::NumSigned(v, *sg)
        }
        Type::Array(e, n) if *n <= 64 => Literal::Array((0..*n).map(|_| engine_literal(e, mode, p)).collect::<Option<Vec<_>>>()?),
        Type::Tuple(ts) => Literal::Tuple(ts.iter().map(|t| engine_literal(t, mode, p)).collect::<Option<Vec<_>>>()?),
        _ => return None,
    })
}

/// An engine that does not call `eval` itself: it hands the circuit it received to the library's
/// `Evaluator` together with its own type-checked copy of the program, supplies one well-typed
/// argument per party and calls `run()`. For a validated circuit that must return Ok or Err,
/// never panic (the Evaluator's pre-checks are part of the property's anchors).
fn engine_path(w: &World, ct: &CircuitType, obs: &mut Obs, seedtag: u64) {
    let Some(prog) = &w.program else { return };
    if prog.src.len() > 4000 {
        return;
    }
    let accepted = match ct {
        CircuitType::Ssa(c) => !ssa_is_huge(c) && small_inputs(&c.input_gates) && matches!(guarded(|| c.validate()), Ok(Ok(()))),
        CircuitType::Register(c) => !reg_is_huge(c) && small_inputs(&c.input_regs) && matches!(guarded(|| c.validate()), Ok(Ok(()))),
    };
    if !accepted {
        return;
    }
    let key = format!("{}|{}", w.dedup, prog.src);
    let gp = ENGINE_PROGRAM.with(|c| {
        let mut c = c.borrow_mut();
        if c.as_ref().map(|(k, _)| *k != key).unwrap_or(true) {
            let consts = build_consts(&prog.consts, &[], 0);
            let src = prog.src.clone();
            let r = guarded(move || garble_lang::compile_with_constants(&src, consts)).ok().and_then(|r| r.ok());
            *c = Some((key.clone(), r.map(std::rc::Rc::new)));
        }
        c.as_ref().and_then(|(_, g)| g.clone())
    });
    let Some(gp) = gp else { return };
    // well-typed arguments have the shape of the program's own circuit; only if the received
    // circuit declares the same shape are they "inputs of the declared shape" (otherwise run() is
    // expected to return Err, and a panic there is outside the property)
    let same_shape = gp.circuit.input_lengths().eq(ct.input_lengths());
    let mut p = Prng::new(seedtag ^ 0xE9);
    for mode in 0..3u8 {
        let mut args = vec![];
        for param in &gp.main.params {
            match engine_literal(&param.ty, mode, &mut p) {
                Some(l) => args.push(l),
                None => {
                    bump(&mut obs.counters, "engine_path_skipped_parameter_type");
                    return;
                }
            }
        }
        obs.executions += 1;
        let r = guarded(|| {
            let mut ev = garble_lang::eval::Evaluator::new(&gp.program, &gp.main, ct, &gp.const_sizes);
            for a in args {
                if ev.set_literal(a).is_err() {
                    return 2u8;
                }
            }
            match ev.run() {
                Ok(_) => 0,
                Err(_) => 1,
            }
        });
        match r {
            Ok(0) => bump(&mut obs.counters, "engine_path_run_ok"),
            Ok(1) => bump(&mut obs.counters, "engine_path_run_err"),
            Ok(_) => bump(&mut obs.counters, "engine_path_literal_rejected"),
            Err(_) if !same_shape => bump(&mut obs.counters, "engine_path_panicked_on_inputs_of_another_shape_not_judged"),
            Err(m) => {
                obs.findings.push(Finding {
                    class: "eval_panicked".into(),
                    signature: format!("eval_panicked:evaluator@{}", panic_site(&m)),
                    what: format!("validate() accepted the circuit, but the library's Evaluator (set_literal with well-typed arguments, then run()) panicked: {m}"),
                });
                return;
            }
        }
    }
}

/// only circuits whose inputs can actually be supplied are worth a child process
fn small_inputs(parties: &[usize]) -> bool {
    circ_ref::total_bits(parties).map(|b| b <= MAX_EVAL_BITS).unwrap_or(false)
}

fn ssa_is_huge(c: &Circuit) -> bool {
    circ_ref::total_bits(&c.input_gates).map(|b| b > MAX_VALIDATE_BITS).unwrap_or(true) || c.gates.len() > MAX_VALIDATE_BITS
}

fn reg_is_huge(c: &rc::Circuit) -> bool {
    circ_ref::total_bits(&c.input_regs).map(|b| b > MAX_VALIDATE_BITS).unwrap_or(true) || c.max_reg_count > (1 << 28) || c.insts.len() > MAX_VALIDATE_BITS
}

fn receive(w: &World, ch: Channel, msg: &[u8], honest: bool, orig_hash: Option<u64>, obs: &mut Obs, seedtag: u64) {
    let mut note = |obs: &mut Obs, c: &CircuitType| {
        let flat = flatten(c);
        let h = value_hash(matches!(c, CircuitType::Register(_)) as u8, &flat);
        if Some(h) != orig_hash {
            obs.damaged_values.push(h);
        }
        let huge = match c {
            CircuitType::Ssa(c) => ssa_is_huge(c) || !small_inputs(&c.input_gates),
            CircuitType::Register(c) => reg_is_huge(c) || !small_inputs(&c.input_regs) || c.max_reg_count > (1 << 24),
        };
        if flat.len() <= 4000 && ch != Channel::Bristol && !huge {
            obs.plain_values.push((c.clone(), honest));
        }
    };
    match ch {
        Channel::JsonSsa => match guarded(|| serde_json::from_slice::<Circuit>(msg)) {
            Ok(Ok(c)) => {
                bump(&mut obs.counters, "deserialised");
                note(obs, &CircuitType::Ssa(c.clone()));
                if ssa_is_huge(&c) && small_inputs(&c.input_gates) {
                    huge_via_child(w, "ssa", obs);
                } else {
                    inspect_ssa(&c, honest, obs, seedtag, true);
                    engine_path(w, &CircuitType::Ssa(c), obs, seedtag);
                }
                obs.summary = "deserialised SSA".into();
            }
            Ok(Err(_)) => bump(&mut obs.counters, "deserialise_error"),
            Err(_) => bump(&mut obs.counters, "deserialise_panicked"),
        },
        Channel::JsonReg => match guarded(|| serde_json::from_slice::<rc::Circuit>(msg)) {
            Ok(Ok(c)) => {
                bump(&mut obs.counters, "deserialised");
                note(obs, &CircuitType::Register(c.clone()));
                if reg_is_huge(&c) && small_inputs(&c.input_regs) {
                    huge_via_child(w, "reg", obs);
                } else {
                    inspect_reg(&c, honest, obs, seedtag);
                    engine_path(w, &CircuitType::Register(c), obs, seedtag);
                }
                obs.summary = "deserialised register circuit".into();
            }
            Ok(Err(_)) => bump(&mut obs.counters, "deserialise_error"),
            Err(_) => bump(&mut obs.counters, "deserialise_panicked"),
        },
        Channel::JsonTypeSsa | Channel::JsonTypeReg => match guarded(|| serde_json::from_slice::<CircuitType>(msg)) {
            Ok(Ok(ct)) => {
                bump(&mut obs.counters, "deserialised");
                note(obs, &ct);
                match &ct {
                    CircuitType::Ssa(c) if ssa_is_huge(c) && small_inputs(&c.input_gates) => huge_via_child(w, "ssa", obs),
                    CircuitType::Register(c) if reg_is_huge(c) && small_inputs(&c.input_regs) => huge_via_child(w, "reg", obs),
                    CircuitType::Ssa(c) => {
                        inspect_ssa(c, honest, obs, seedtag, true);
                        engine_path(w, &ct, obs, seedtag);
                    }
                    CircuitType::Register(c) => {
                        inspect_reg(c, honest, obs, seedtag);
                        engine_path(w, &ct, obs, seedtag);
                    }
                }
                obs.summary = "deserialised CircuitType".into();
            }
            Ok(Err(_)) => bump(&mut obs.counters, "deserialise_error"),
            Err(_) => bump(&mut obs.counters, "deserialise_panicked"),
        },
        Channel::Bristol => {
            seams::install_plan(Plan::default());
            seams::disk_put("/SIMDISK/rx.bristol.txt", msg.to_vec());
            let p = seams::sim_path("rx.bristol.txt");
            match guarded(|| Circuit::bristol_to_garble(&p)) {
                Ok(Ok(c)) => {
                    bump(&mut obs.counters, "imported");
                    note(obs, &CircuitType::Ssa(c.clone()));
                    // an imported circuit is a *converted* circuit, not a compiler output: only
                    // "accepted => safe" is demanded of it
                    inspect_ssa(&c, false, obs, seedtag, true);
                    obs.summary = "imported Bristol".into();
                }
                Ok(Err(_)) => bump(&mut obs.counters, "import_error"),
                Err(_) => bump(&mut obs.counters, "import_panicked_(C11_matter)"),
            }
        }
    }
}

/// honest message of the current case's subject (large subjects take seconds to compile and
/// serialise; cleared at the start of every case)
static MESSAGE_CACHE: std::sync::Mutex<Option<(String, Vec<u8>, u64)>> = std::sync::Mutex::new(None);

pub fn clear_message_cache() {
    *MESSAGE_CACHE.lock().unwrap_or_else(|e| e.into_inner()) = None;
}

fn run_world_inner(w: &World) -> Obs {
    for earlier in &w.prior {
        let mut e = earlier.clone();
        e.prior.clear();
        let _ = guarded(|| run_world_inner(&e));
    }
    let mut obs = Obs::default();
    let seedtag = tag(w.program.as_ref().map(|p| p.src.as_str()).unwrap_or("raw"));
    let (mut msg, orig_hash) = if let Some(raw) = &w.raw_message {
        (raw.clone(), None)
    } else {
        let Some(prog) = &w.program else { return obs };
        let key = format!("{}|{:?}|{}", w.dedup, w.channel, prog.src);
        let cached = MESSAGE_CACHE.lock().unwrap_or_else(|e| e.into_inner()).as_ref().filter(|(k, _, _)| *k == key).map(|(_, m, h)| (m.clone(), *h));
        if let Some((m, h)) = cached {
            (m, Some(h))
        } else {
            let (ssa, reg) = match compile_both(prog, w.dedup) {
                Ok(x) => x,
                Err(e) => {
                    bump(&mut obs.counters, "subject_did_not_compile");
                    obs.summary = e;
                    return obs;
                }
            };
            obs.executions += 1;
            let oh = match w.channel {
                Channel::JsonReg | Channel::JsonTypeReg => match &reg {
                    Some(reg) => value_hash(1, &flatten(&CircuitType::Register(reg.clone()))),
                    None => 0,
                },
                _ => value_hash(0, &flatten(&CircuitType::Ssa(ssa.clone()))),
            };
            match honest_message(&ssa, &reg, w.channel) {
                Ok(m) => {
                    if m.len() > (1 << 20) {
                        *MESSAGE_CACHE.lock().unwrap_or_else(|e| e.into_inner()) = Some((key, m.clone(), oh));
                    }
                    (m, Some(oh))
                }
                Err(e) => {
                    bump(&mut obs.counters, "subject_not_sendable");
                    obs.summary = e;
                    return obs;
                }
            }
        }
    };
    let mut changed = false;
    for f in &w.faults {
        if apply_fault(&mut msg, f) {
            changed = true;
            let name = serde_json::to_value(f).ok().and_then(|v| v.as_object().and_then(|o| o.keys().next().cloned())).unwrap_or_default();
            bump(&mut obs.counters, &format!("fault_applied_{name}"));
        }
    }
    let honest = !changed && w.raw_message.is_none() && w.channel != Channel::Bristol;
    if let Some(kind) = w.misuse_before {
        documented_misuse(kind, &mut obs);
    }
    seams::refuse_threads_after(if w.no_threads { Some(0) } else { w.threads_refused_after });
    receive(w, w.channel, &msg, honest, orig_hash, &mut obs, seedtag);
    seams::refuse_threads(false);
    obs
}

/// Run a batch of worlds that share their keys inside ONE party thread (sweeps).
pub fn run_worlds(keys: Keys, worlds: &[World]) -> Vec<Obs> {
    seams::reset_world();
    let ws = worlds.to_vec();
    let n = ws.len();
    match run_party(keys, move || {
        ws.iter()
            .map(|w| {
                crate::supervise::announce_world(|| serde_json::to_string(w).unwrap());
                seams::reset_world();
                guarded(|| run_world_inner(w)).unwrap_or_else(|m| {
                    let mut o = Obs::default();
                    o.findings.push(Finding { class: "harness_panicked".into(), signature: format!("harness_panicked@{}", panic_site(&m)), what: m });
                    o
                })
            })
            .collect::<Vec<_>>()
    }) {
        Ok(v) => v,
        Err(m) => (0..n)
            .map(|_| {
                let mut o = Obs::default();
                o.findings.push(Finding { class: "harness_panicked".into(), signature: format!("harness_panicked@{}", panic_site(&m)), what: m.clone() });
                o
            })
            .collect(),
    }
}

pub fn run_world(w: &World) -> Obs {
    crate::supervise::announce_world(|| serde_json::to_string(w).unwrap());
    seams::reset_world();
    let w2 = w.clone();
    match run_party(w.keys, move || run_world_inner(&w2)) {
        Ok(o) => o,
        Err(m) => {
            let mut o = Obs::default();
            o.findings.push(Finding { class: "harness_panicked".into(), signature: format!("harness_panicked@{}", panic_site(&m)), what: m });
            o
        }
    }
}

// ------------------------------------------------------------------------------------------
// cases
// ------------------------------------------------------------------------------------------

pub struct Tier {
    pub honest: u64,
    /// circuits of more than 2^20 gates with damage in their last gates, also while the OS
    /// refuses to create threads
    pub large: u64,
    pub sweep: u64,
    pub seeded: u64,
    pub bristol: u64,
}

pub fn tier(t: &str) -> Tier {
    if t == "thorough" {
        Tier { honest: 8_000, large: 16, sweep: 400, seeded: 64_000, bristol: 20_000 }
    } else {
        Tier { honest: 400, large: 1, sweep: 40, seeded: 2_500, bristol: 750 }
    }
}

pub struct CasePlan {
    pub corpus: Vec<CorpusEntry>,
    pub tier: Tier,
}

impl CasePlan {
    pub fn load(t: &str) -> Result<CasePlan, String> {
        Ok(CasePlan { corpus: load_corpus()?, tier: tier(t) })
    }
    pub fn n_cases(&self) -> u64 {
        self.tier.honest + self.tier.large + self.tier.sweep + self.tier.seeded + self.tier.bristol
    }
    pub fn family(&self, idx: u64) -> (&'static str, u64) {
        let t = &self.tier;
        let mut i = idx;
        for (name, n) in [("honest", t.honest), ("large", t.large), ("sweep", t.sweep), ("seeded", t.seeded), ("bristol", t.bristol)] {
            if i < n {
                return (name, i);
            }
            i -= n;
        }
        ("bristol", i)
    }
}

const NUMS: &[&str] = &["0", "1", "2", "3", "7", "8", "9", "16", "64", "161", "255", "256", "65535", "4294967295", "4294967296", "18446744073709551615"];

fn draw_faults(p: &mut Prng, msg: &[u8], ch: Channel) -> Vec<MsgFault> {
    let n = if p.chance(3, 5) { 1 } else { p.range(2, 3) };
    let len = msg.len().max(1);
    let ntok = number_tokens(msg).len().max(1);
    let (narr, nelem) = array_census(msg);
    let nnames = name_occurrences(msg).len().max(1);
    let mut out = vec![];
    for _ in 0..n {
        if ch == Channel::Bristol {
            let ntoks = msg.split(|b| b.is_ascii_whitespace()).filter(|t| !t.is_empty()).count().max(1);
            let nlines = msg.iter().filter(|b| **b == b'\n').count().max(1);
            out.push(MsgFault::Disk(match p.below(8) {
                0 => Corruption::BitFlip { off: p.usize_below(len), bit: p.below(8) as u8 },
                1 => Corruption::Subst { off: p.usize_below(len), byte: *p.pick(b"0123456789 \n") },
                2 | 3 | 4 => Corruption::ReplaceToken { index: p.usize_below(ntoks), with: p.pick(&["0", "1", "2", "3", "5", "8", "16", "XOR", "AND", "INV"]).to_string() },
                5 => Corruption::DupLine { line: p.usize_below(nlines) },
                6 => Corruption::DelLine { line: p.usize_below(nlines) },
                _ => Corruption::SwapLines { a: p.usize_below(nlines), b: p.usize_below(nlines) },
            }));
            continue;
        }
        out.push(match p.below(14) {
            0 => MsgFault::BitFlip { off: p.usize_below(len), bit: p.below(8) as u8 },
            1 | 2 => {
                // land on a digit
                let toks = number_tokens(msg);
                if toks.is_empty() {
                    MsgFault::BitFlip { off: p.usize_below(len), bit: 0 }
                } else {
                    let (s, e) = *p.pick(&toks);
                    MsgFault::DigitSubst { off: s + p.usize_below(e - s), digit: p.below(10) as u8 }
                }
            }
            3 => MsgFault::ByteDup { off: p.usize_below(len) },
            4 => MsgFault::ByteDel { off: p.usize_below(len) },
            5 | 6 => MsgFault::NumReplace { index: p.usize_below(ntok), with: p.pick(NUMS).to_string() },
            7 | 8 => {
                let (delta, xor) = *p.pick(&[(1i64, 0u64), (-1, 0), (2, 0), (0, 1), (0, 32), (32, 0), (0, 64), (64, 0), (0, 16), (16, 0), (0, 128)]);
                MsgFault::NumShift { index: p.usize_below(ntok), delta, xor }
            }
            9 => {
                if p.chance(1, 3) {
                    MsgFault::FieldDrop { index: p.usize_below(field_census(msg).max(1)) }
                } else {
                    MsgFault::ElemDup { index: p.usize_below(nelem.max(1)) }
                }
            }
            10 | 11 => MsgFault::ElemDrop { index: p.usize_below(nelem.max(1)) },
            12 => {
                if p.chance(1, 2) {
                    MsgFault::ArrayClear { index: p.usize_below(narr.max(1)) }
                } else {
                    MsgFault::ArrayTruncate { index: p.usize_below(narr.max(1)), keep: p.range(1, 4) as usize }
                }
            }
            _ => MsgFault::NameReplace { index: p.usize_below(nnames), with: p.pick(NAMES).to_string() },
        });
    }
    out
}

fn small_subject(p: &mut Prng) -> ProgSpec {
    ProgSpec { name: "small".into(), src: gen::small_program(p), consts: vec![] }
}

fn fixed_tiny() -> Vec<&'static str> {
    vec![
        "pub fn main(a: bool, b: bool) -> bool {\n    a ^ b\n}\n",
        "pub fn main(a: bool, b: bool) -> bool {\n    a & b\n}\n",
        "pub fn main(a: bool, b: bool, c: bool) -> (bool, bool) {\n    (a & b, !c)\n}\n",
        "pub fn main(a: u8) -> bool {\n    a == 3u8\n}\n",
        "pub fn main(a: bool) -> (bool, bool) {\n    (!a, !a)\n}\n",
        "pub fn main(a: bool, b: bool) -> bool {\n    if a { b } else { !b }\n}\n",
        "pub fn main(a: bool, b: bool) -> [bool; 2] {\n    [a | b, a & b]\n}\n",
        "pub fn main(a: bool, b: bool, c: bool) -> bool {\n    (a ^ b) & (b ^ c)\n}\n",
        "pub fn main(a: u8, b: bool) -> bool {\n    (a > 1u8) & b\n}\n",
        "pub fn main(a: u8, b: u8, c: u8) -> bool {\n    (a & b) == c\n}\n",
        // degenerate but accepted programs: parties without any input bit
        "pub fn main(a: (), b: bool) -> bool {\n    !b\n}\n",
        "pub fn main(a: ()) -> bool {\n    true\n}\n",
        "pub fn main(a: [u8; 0], b: ()) -> [u8; 0] {\n    a\n}\n",
    ]
}

fn tiny_subject(p: &mut Prng) -> ProgSpec {
    // very small circuits for the complete sweeps
    let srcs = fixed_tiny();
    if p.chance(1, 2) {
        return ProgSpec { name: "tiny-gen".into(), src: gen::tiny_program(p), consts: vec![] };
    }
    ProgSpec { name: "tiny".into(), src: p.pick(&srcs).to_string(), consts: vec![] }
}

const N_FIXED_TINY: u64 = 13;

/// Sweep subjects: the first 13 sweep cases take the hand-written tiny programs in order (so the
/// quick tier always covers all of them), later ones are generated.
fn sweep_subject(sub: u64, p: &mut Prng) -> ProgSpec {
    if sub < N_FIXED_TINY {
        let all = fixed_tiny();
        return ProgSpec { name: "tiny".into(), src: all[(sub as usize) % all.len()].to_string(), consts: vec![] };
    }
    ProgSpec { name: "tiny-gen".into(), src: gen::tiny_program(p), consts: vec![] }
}

/// The honest message of a world (computed in a party), for sizing fault spaces.
fn message_of(w: &World) -> Option<Vec<u8>> {
    seams::reset_world();
    let w2 = w.clone();
    run_party(w.keys, move || {
        let (ssa, reg) = compile_both(w2.program.as_ref()?, w2.dedup).ok()?;
        honest_message(&ssa, &reg, w2.channel).ok()
    })
    .ok()
    .flatten()
}

struct Acc {
    executions: u64,
    counters: BTreeMap<String, u64>,
    values: BTreeSet<u64>,
    accepted_damaged: u64,
    d: Digest,
    seen: BTreeSet<String>,
    pending: Vec<(World, Finding, Vec<World>)>,
    last_summary: String,
    /// values waiting for the differently built receiver (one child per case), deduplicated
    plain_queue: Vec<(World, CircuitType, bool)>,
    plain_seen: BTreeSet<u64>,
}

const PLAIN_CAP: usize = 3000;

fn plain_line(ct: &CircuitType) -> String {
    let mut l = String::from(if matches!(ct, CircuitType::Register(_)) { "R" } else { "S" });
    for x in flatten(ct) {
        l.push(' ');
        l.push_str(&x.to_string());
    }
    l.push('\n');
    l
}

/// Hand circuit values to the receiver built with default features in release mode and judge what
/// it reports: accepted there => safe (independent reference) and eval there neither panics nor
/// dies nor returns another number of bits; an honest value accepted by this build is accepted there.
fn judge_plain(items: &[(World, CircuitType, bool)], counters: &mut BTreeMap<String, u64>) -> Vec<(usize, Finding)> {
    use std::io::Write;
    let mut out = vec![];
    let Some(exe) = std::env::var("VERIF_PLAIN_BIN").ok().map(std::path::PathBuf::from).filter(|p| p.exists()) else {
        *counters.entry("plain_receiver_unavailable".into()).or_insert(0) += items.len() as u64;
        return out;
    };
    let mut from = 0usize;
    let mut spawns = 0;
    while from < items.len() && spawns < 50 {
        spawns += 1;
        let mut cmd = child_command(&exe);
        cmd.stdin(std::process::Stdio::piped()).stdout(std::process::Stdio::piped()).stderr(std::process::Stdio::null());
        unsafe {
            use std::os::unix::process::CommandExt;
            cmd.pre_exec(|| {
                let cpu = libc::rlimit { rlim_cur: 60, rlim_max: 60 };
                libc::setrlimit(libc::RLIMIT_CPU, &cpu);
                let mem = libc::rlimit { rlim_cur: 2 << 30, rlim_max: 2 << 30 };
                libc::setrlimit(libc::RLIMIT_AS, &mem);
                let z = libc::rlimit { rlim_cur: 0, rlim_max: 0 };
                libc::setrlimit(libc::RLIMIT_CORE, &z);
                Ok(())
            });
        }
        let Ok(mut child) = cmd.spawn() else {
            return out;
        };
        let mut stdin = child.stdin.take().unwrap();
        let lines: Vec<String> = items[from..].iter().map(|(_, ct, _)| plain_line(ct)).collect();
        let writer = std::thread::spawn(move || {
            for l in lines {
                if stdin.write_all(l.as_bytes()).is_err() {
                    break;
                }
            }
        });
        let Ok(res) = child.wait_with_output() else { return out };
        let _ = writer.join();
        let text = String::from_utf8_lossy(&res.stdout).to_string();
        // per value: verdict, eval lines, done?
        let mut last_begun: Option<usize> = None;
        let mut done: BTreeSet<usize> = BTreeSet::new();
        let mut verdict: BTreeMap<usize, String> = BTreeMap::new();
        let mut evals: BTreeMap<usize, Vec<String>> = BTreeMap::new();
        for l in text.lines() {
            let mut it = l.splitn(3, ' ');
            let (tag, idx, rest) = (it.next().unwrap_or(""), it.next().and_then(|x| x.parse::<usize>().ok()), it.next().unwrap_or(""));
            let Some(i) = idx else { continue };
            match tag {
                "B" => last_begun = Some(i),
                "A" => {
                    verdict.insert(i, rest.to_string());
                }
                "E" => evals.entry(i).or_default().push(rest.to_string()),
                "D" => {
                    done.insert(i);
                }
                _ => {}
            }
        }
        let n_here = items.len() - from;
        let upto = match last_begun {
            Some(i) if !done.contains(&i) => i + 1, // died while handling value i
            _ => n_here,
        };
        for i in 0..upto.min(n_here) {
            let (_, ct, honest) = &items[from + i];
            *counters.entry("plain_build_values_checked".into()).or_insert(0) += 1;
            let kind = if matches!(ct, CircuitType::Register(_)) { "reg" } else { "ssa" };
            let accepted_there = verdict.get(&i).map(|v| v == "1").unwrap_or(false);
            let died = !done.contains(&i);
            let accepted_here = match ct {
                CircuitType::Ssa(c) => matches!(guarded(|| c.validate()), Ok(Ok(()))),
                CircuitType::Register(c) => matches!(guarded(|| c.validate()), Ok(Ok(()))),
            };
            if accepted_there {
                *counters.entry("plain_build_accepted".into()).or_insert(0) += 1;
                let unsafe_ = match ct {
                    CircuitType::Ssa(c) => circ_ref::unsafe_ssa(c),
                    CircuitType::Register(c) => circ_ref::unsafe_reg(c),
                };
                if let Some((code, why)) = unsafe_ {
                    out.push((from + i, Finding {
                        class: "validate_accepts_unsafe".into(),
                        signature: format!("validate_accepts_unsafe:{code}:default_features_release_build"),
                        what: format!("{kind} validate() of a receiver built with default cargo features in release mode accepted a circuit that is not safe to evaluate: {why}"),
                    }));
                    continue;
                }
                let ev = evals.get(&i).cloned().unwrap_or_default();
                if let Some(p) = ev.iter().find_map(|e| e.strip_prefix("panic ")) {
                    out.push((from + i, Finding {
                        class: "eval_panicked".into(),
                        signature: format!("eval_panicked:{kind}:default_features_release_build"),
                        what: format!("validate() accepted the {kind} circuit in a receiver built with default cargo features in release mode, but eval() on inputs of the declared shape panicked there: {p}"),
                    }));
                } else if ev.iter().any(|e| e.strip_prefix("ok ").map(|r| { let mut t = r.split(' '); t.next() != t.next() }).unwrap_or(false)) {
                    out.push((from + i, Finding {
                        class: "eval_wrong_output_count".into(),
                        signature: format!("eval_wrong_output_count:{kind}:default_features_release_build"),
                        what: "eval returned a different number of bits than declared outputs (receiver built with default cargo features in release mode)".into(),
                    }));
                } else if died {
                    out.push((from + i, Finding {
                        class: "eval_panicked".into(),
                        signature: format!("eval_aborted:{kind}:default_features_release_build"),
                        what: format!("validate() accepted the {kind} circuit in a receiver built with default cargo features in release mode, then that process died inside eval() ({})", res.status),
                    }));
                }
            } else if *honest && accepted_here {
                out.push((from + i, Finding {
                    class: "validate_rejects_honest".into(),
                    signature: format!("validate_rejects_honest:{kind}:default_features_release_build"),
                    what: format!("a circuit produced by the compiler/converter is accepted by this build's validate() but not by a receiver built with default cargo features in release mode (verdict there: {:?}, process {})", verdict.get(&i), if died { "died" } else { "alive" }),
                }));
            }
        }
        from += upto.min(n_here).max(1);
    }
    out
}

fn absorb(o: &Obs, w: &World, acc: &mut Acc) {
    acc.executions += o.executions.max(1);
    for (k, v) in &o.counters {
        *acc.counters.entry(k.clone()).or_insert(0) += v;
    }
    acc.values.extend(o.damaged_values.iter().copied());
    if o.accepted_damaged {
        acc.accepted_damaged += 1;
    }
    acc.d.str(&o.summary);
    acc.d.usize(o.findings.len());
    for (k, v) in &o.counters {
        acc.d.str(k);
        acc.d.u64(*v);
    }
    for f in &o.findings {
        acc.d.str(&f.signature);
        if acc.seen.insert(f.signature.clone()) {
            acc.pending.push((w.clone(), f.clone(), vec![]));
        }
    }
    acc.last_summary = o.summary.clone();
    for (ct, honest) in &o.plain_values {
        if acc.plain_queue.len() >= PLAIN_CAP {
            break;
        }
        let h = value_hash(matches!(ct, CircuitType::Register(_)) as u8 + 2 * (*honest as u8), &flatten(ct));
        if acc.plain_seen.insert(h) {
            acc.plain_queue.push((World { prior: vec![], plain_build: true, ..w.clone() }, ct.clone(), *honest));
        }
    }
}

/// Absorb a batch that ran on ONE receiver thread: a finding's history is the part of the batch
/// that ran before it (used only if the world alone does not reproduce the finding).
fn absorb_batch(obs: &[Obs], ws: &[World], acc: &mut Acc) {
    for (j, (o, w)) in obs.iter().zip(ws.iter()).enumerate() {
        let before = acc.pending.len();
        absorb(o, w, acc);
        for p in acc.pending.iter_mut().skip(before) {
            p.2 = ws[..j].to_vec();
        }
    }
}

/// Large circuits (> 2^20 gates): the honest message goes through the full receiver path once;
/// damage in the last gates is then applied to the deserialised circuit value directly (cloning
/// 60 MB is far cheaper than re-parsing 50 MB of JSON 100 times). Each variant corresponds exactly
/// to a `TailNumReplace` fault on the message, which is what its replay file contains and what
/// the confirmation in a fresh process executes through the full path.
fn run_large(base: &World, acc: &mut Acc) {
    use garble_lang::circuit::Gate;
    let keys = base.keys;
    let b = base.clone();
    let seedtag = tag(base.program.as_ref().map(|p| p.src.as_str()).unwrap_or("raw"));
    let result = run_party(keys, move || {
        let mut out: Vec<(World, Obs)> = vec![];
        seams::reset_world();
        // full path, fault-free, with and without thread creation
        for no_threads in [false, true] {
            let mut w = b.clone();
            w.no_threads = no_threads;
            let o = guarded(|| run_world_inner(&w)).unwrap_or_default();
            out.push((w, o));
        }
        let Some(msg) = damaged_message(&b) else { return out };
        let Ok(honest) = serde_json::from_slice::<Circuit>(&msg) else { return out };
        drop(msg);
        let value: usize = 4_000_000_000;
        let arity = |g: &Gate| match g {
            Gate::Not(_) => 1usize,
            _ => 2,
        };
        let set_op = |g: &mut Gate, op: usize, value: usize| match (g, op) {
            (Gate::Xor(x, _), 0) | (Gate::And(x, _), 0) | (Gate::Not(x), 0) => *x = value,
            (Gate::Xor(_, y), _) | (Gate::And(_, y), _) => *y = value,
            _ => {}
        };
        let mut run_variant = |c: &Circuit, w: World, out: &mut Vec<(World, Obs)>| {
            let mut o = Obs::default();
            seams::refuse_threads_after(if w.no_threads { Some(0) } else { w.threads_refused_after });
            if let Ok(o2) = guarded(|| {
                let mut o2 = Obs::default();
                inspect_ssa(c, false, &mut o2, seedtag, false);
                o2
            }) {
                o = o2;
            }
            seams::refuse_threads_after(None);
            bump(&mut o.counters, "large_variants");
            out.push((w, o));
        };
        let n = honest.gates.len();
        // (a) the last 24 gates, token n (counted from the end) <-> (gate, operand)
        let mut nth = 0usize;
        'gates: for back in 0..n.min(24) {
            let gi = n - 1 - back;
            for op in (0..arity(&honest.gates[gi])).rev() {
                let mut c = honest.clone();
                set_op(&mut c.gates[gi], op, value);
                let mut w = b.clone();
                w.faults = vec![MsgFault::TailNumReplace { nth_from_end: nth, with: value.to_string() }];
                run_variant(&c, w, &mut out);
                nth += 1;
                if nth > 60 {
                    break 'gates;
                }
            }
        }
        // (b) every residue of the gate count modulo 8: the last gate arrives t more times, and
        //     the (new) last gate carries the damage
        if let Some(last) = honest.gates.last().cloned() {
            for t in 1..8usize {
                let mut c = honest.clone();
                for _ in 0..t {
                    c.gates.push(last.clone());
                }
                let li = c.gates.len() - 1;
                let op = arity(&c.gates[li]) - 1;
                set_op(&mut c.gates[li], op, value);
                let mut w = b.clone();
                w.faults = vec![MsgFault::TailElemDup { times: t }, MsgFault::TailNumReplace { nth_from_end: 0, with: value.to_string() }];
                run_variant(&c, w, &mut out);
            }
        }
        // (c) the OS runs out of threads after k creations, and the damage sits in the middle of
        //     each eighth of the gate list (token index from the start = sum of earlier arities)
        let mut prefix = vec![0usize; 9];
        {
            let mut tok = 0usize;
            let mut next = 0usize;
            for (gi, g) in honest.gates.iter().enumerate() {
                while next < 8 && gi == n * (2 * next + 1) / 16 {
                    prefix[next] = tok;
                    next += 1;
                }
                tok += arity(g);
            }
        }
        for k in 0..8u32 {
            for j in 0..8usize {
                let gi = n * (2 * j + 1) / 16;
                if gi >= n {
                    continue;
                }
                let mut c = honest.clone();
                set_op(&mut c.gates[gi], 0, value);
                let mut w = b.clone();
                w.threads_refused_after = Some(k);
                w.faults = vec![MsgFault::ProgramNumReplace { index: prefix[j], with: value.to_string() }];
                run_variant(&c, w, &mut out);
            }
        }
        // (d) damage at block boundaries: wire / gate indices 2^k - 1, 2^k, 2^k + 1 (k = 8..24) and
        //     the points where blocks of 2^16 with one element between them would start
        //     (65536, 131073, 196610, ...): whatever a validator does "per block" is decided there
        let inputs: usize = honest.input_gates.iter().sum();
        let mut points: BTreeSet<usize> = BTreeSet::new();
        for k in 8..=24u32 {
            for d in [-1i64, 0, 1] {
                let x = (1i64 << k) + d;
                points.insert(x as usize);
                if x as usize >= inputs {
                    points.insert(x as usize - inputs);
                }
            }
        }
        for j in 1..=12usize {
            for x in [65536 * j + (j - 1), 65536 * j, 65536 * j + j] {
                points.insert(x);
                if x >= inputs {
                    points.insert(x - inputs);
                }
            }
        }
        let points: Vec<usize> = points.into_iter().filter(|&g| g < n).collect();
        let mut tok_at: BTreeMap<usize, usize> = BTreeMap::new();
        {
            let mut tok = 0usize;
            let mut it = points.iter().peekable();
            for (gi, g) in honest.gates.iter().enumerate() {
                if it.peek() == Some(&&gi) {
                    tok_at.insert(gi, tok);
                    it.next();
                }
                tok += arity(g);
            }
        }
        for &gi in &points {
            let mut c = honest.clone();
            set_op(&mut c.gates[gi], 0, value);
            let mut w = b.clone();
            w.faults = vec![MsgFault::ProgramNumReplace { index: tok_at[&gi], with: value.to_string() }];
            run_variant(&c, w, &mut out);
        }
        // (e) the same for the register form of the circuit: instruction i reads a register that does not exist
        if let Ok(reg) = guarded(|| rc::Circuit::from(&honest)) {
            let ni = reg.insts.len();
            let toks_of = |i: &rc::Inst| match i.op {
                rc::Op::Not(_) => 2usize,
                _ => 3,
            };
            let rpoints: Vec<usize> = points.iter().copied().chain([65536usize, 131073, 196610]).filter(|&i| i < ni).collect::<BTreeSet<_>>().into_iter().collect();
            let mut rtok: BTreeMap<usize, usize> = BTreeMap::new();
            {
                let mut tok = 0usize;
                let mut it = rpoints.iter().peekable();
                for (ii, inst) in reg.insts.iter().enumerate() {
                    if it.peek() == Some(&&ii) {
                        rtok.insert(ii, tok);
                        it.next();
                    }
                    tok += toks_of(inst);
                }
            }
            let bad = rc::Reg(4_000_000_000);
            for &ii in &rpoints {
                let mut c = reg.clone();
                match &mut c.insts[ii].op {
                    rc::Op::Xor(rc::Xor(a, _)) | rc::Op::And(rc::And(a, _)) | rc::Op::Not(rc::Not(a)) => *a = bad,
                    rc::Op::Input(rc::Input { party, .. }) => *party = 4_000_000_000,
                }
                let mut w = b.clone();
                w.channel = Channel::JsonReg;
                // token after the instruction's `out`
                w.faults = vec![MsgFault::ProgramNumReplace { index: rtok[&ii] + 1, with: "4000000000".into() }];
                let mut o = Obs::default();
                if let Ok(o2) = guarded(|| {
                    let mut o2 = Obs::default();
                    inspect_reg(&c, false, &mut o2, seedtag);
                    o2
                }) {
                    o = o2;
                }
                bump(&mut o.counters, "large_variants_register");
                out.push((w, o));
            }
        }
        out
    });
    if let Ok(list) = result {
        for (w, o) in &list {
            absorb(o, w, acc);
        }
    }
}

fn run_sweep(base: &World, acc: &mut Acc) {
    for ch in [Channel::JsonSsa, Channel::JsonReg, Channel::JsonTypeSsa, Channel::JsonTypeReg] {
        let mut b = base.clone();
        b.channel = ch;
        let Some(msg) = message_of(&b) else {
            *acc.counters.entry("sweep_subject_failed".into()).or_insert(0) += 1;
            continue;
        };
        *acc.counters.entry("sweep_messages".into()).or_insert(0) += 1;
        let keys = b.keys;
        let mut batch: Vec<World> = Vec::new();
        let mut go = |f: Vec<MsgFault>, acc: &mut Acc| {
            let mut w = b.clone();
            w.faults = f;
            batch.push(w);
            if batch.len() >= 512 {
                let ws = std::mem::take(&mut batch);
                absorb_batch(&run_worlds(keys, &ws), &ws, acc);
            }
        };
        // the fault-free channel first: compiler / converter output must be accepted
        go(vec![], acc);
        // complete: every digit position x every other digit
        for (s, e) in number_tokens(&msg) {
            for off in s..e {
                for digit in 0..10u8 {
                    if msg[off] != b'0' + digit {
                        go(vec![MsgFault::DigitSubst { off, digit }], acc);
                    }
                }
            }
        }
        // complete: every number token x every interesting value
        let ntok = number_tokens(&msg).len();
        for index in 0..ntok {
            for n in NUMS {
                go(vec![MsgFault::NumReplace { index, with: n.to_string() }], acc);
            }
        }
        // complete: every number token shifted to a neighbouring / aliasing value
        for index in 0..ntok {
            for (delta, xor) in [(1i64, 0u64), (-1, 0), (2, 0), (0, 1), (0, 32), (32, 0), (0, 64), (64, 0)] {
                go(vec![MsgFault::NumShift { index, delta, xor }], acc);
            }
        }
        // burst damage inside one instruction record: the op name AND one of the numbers next to
        // it (the `out` before it, the operands after it) change together
        let toks = number_tokens(&msg);
        for (ni, (ns, ne)) in name_occurrences(&msg).into_iter().enumerate() {
            let before = toks.iter().rposition(|&(_, e)| e <= ns);
            let after: Vec<usize> = toks.iter().enumerate().filter(|(_, &(s, _))| s >= ne).map(|(i, _)| i).take(2).collect();
            let mut near: Vec<usize> = before.into_iter().collect();
            near.extend(after);
            for name in NAMES {
                for &ti in &near {
                    for n in ["0", "1", "2", "3", "4", "5", "8"] {
                        go(vec![MsgFault::NumReplace { index: ti, with: n.to_string() }, MsgFault::NameReplace { index: ni, with: name.to_string() }], acc);
                    }
                }
            }
        }
        // complete: every array element duplicated / dropped, every array cleared
        let (narr, nelem) = array_census(&msg);
        for index in 0..nelem {
            go(vec![MsgFault::ElemDup { index }], acc);
            go(vec![MsgFault::ElemDrop { index }], acc);
        }
        for index in 0..narr {
            go(vec![MsgFault::ArrayClear { index }], acc);
        }
        // complete: every op name x every other name
        let nn = name_occurrences(&msg).len();
        for index in 0..nn {
            for n in NAMES {
                go(vec![MsgFault::NameReplace { index, with: n.to_string() }], acc);
            }
        }
        // burst damage across two adjacent numbers (e.g. the party AND the index of one Input record)
        let ntok_pairs = number_tokens(&msg).len();
        for index in 0..ntok_pairs.saturating_sub(1).min(260) {
            for a in ["0", "1", "2", "3"] {
                for b2 in ["0", "1", "2", "3"] {
                    go(vec![MsgFault::NumReplace { index, with: a.to_string() }, MsgFault::NumReplace { index: index + 1, with: b2.to_string() }], acc);
                }
            }
        }
        // every object field missing (a receiver with lenient defaults would accept the message)
        for index in 0..field_census(&msg).min(64) {
            go(vec![MsgFault::FieldDrop { index }], acc);
        }
        // single arrays truncated to their first elements
        let layout = array_layout(&msg);
        for (ai, &(_, len, _)) in layout.iter().enumerate() {
            for keep in [1usize, 2, 3, len / 2, len.saturating_sub(1)] {
                if keep < len {
                    go(vec![MsgFault::ArrayTruncate { index: ai, keep }], acc);
                }
            }
        }
        // two arrays damaged together (emptied / truncated): the tail of several fields is lost
        let top: Vec<usize> = layout.iter().enumerate().filter(|(_, &(_, len, _))| len > 0).map(|(i, _)| i).take(6).collect();
        let lvl = |ai: usize| vec![MsgFault::ArrayClear { index: ai }, MsgFault::ArrayTruncate { index: ai, keep: 1 }, MsgFault::ArrayTruncate { index: ai, keep: 2 }];
        for (x, &a1) in top.iter().enumerate() {
            for &a2 in top.iter().skip(x + 1) {
                for f1 in lvl(a1) {
                    for f2 in lvl(a2) {
                        // later array first: indices of earlier arrays stay valid
                        go(vec![f2.clone(), f1.clone()], acc);
                    }
                }
            }
        }
        // tail-loss lattice: every combination of per-array tail losses on the three top-level
        // arrays (inputs, instructions/gates, outputs) x size field in {as sent, 0, 1, 2} x first
        // output in {as sent, 0, 1}: the degenerate circuits a receiver sees when only the head of
        // every field arrives
        if layout.len() >= 3 {
            let (a_in, a_prog, a_out) = (0usize, 1usize, layout.len() - 1);
            let out_tok = field_token(&msg, "output_regs").or_else(|| field_token(&msg, "output_gates"));
            let size_tok = field_token(&msg, "max_reg_count");
            let levels = |ai: usize| -> Vec<Option<MsgFault>> {
                vec![
                    None,
                    Some(MsgFault::ArrayClear { index: ai }),
                    Some(MsgFault::ArrayTruncate { index: ai, keep: 1 }),
                    Some(MsgFault::ArrayTruncate { index: ai, keep: 2 }),
                    Some(MsgFault::ArrayTruncate { index: ai, keep: 3 }),
                ]
            };
            let sizes: Vec<Option<&str>> = if size_tok.is_some() { vec![None, Some("0"), Some("1"), Some("2")] } else { vec![None] };
            for lo in levels(a_out) {
                for lp in levels(a_prog) {
                    for li in levels(a_in) {
                        for sz in &sizes {
                            for o0 in [None, Some("0"), Some("1")] {
                                let mut fs = vec![];
                                if let (Some(v), Some(t)) = (o0, out_tok) {
                                    fs.push(MsgFault::NumReplace { index: t, with: v.to_string() });
                                }
                                if let (Some(v), Some(t)) = (sz, size_tok) {
                                    fs.push(MsgFault::NumReplace { index: t, with: v.to_string() });
                                }
                                // outputs first, then the program, then the inputs: indices stay valid
                                fs.extend(lo.clone());
                                fs.extend(lp.clone());
                                fs.extend(li.clone());
                                if fs.len() >= 2 {
                                    go(fs, acc);
                                }
                            }
                        }
                    }
                }
            }
        }
        // two instructions / gates lost together
        for &(start, len, is_obj) in &layout {
            if is_obj && len >= 2 {
                let n = len.min(24);
                for i in 0..n {
                    for j in (i + 1)..n {
                        go(vec![MsgFault::ElemDrop { index: start + j }, MsgFault::ElemDrop { index: start + i }], acc);
                    }
                }
            }
        }
        // a size field and one number inside the instruction list change together
        if let Some(sz) = field_token(&msg, "max_reg_count") {
            let toks = number_tokens(&msg);
            let inst_end = msg.windows(16).position(|w| w == b"\"max_reg_count\":").unwrap_or(0);
            let inside: Vec<usize> = toks.iter().enumerate().filter(|(_, &(s, _))| s < inst_end).map(|(i, _)| i).skip_while(|&i| i < 2).take(40).collect();
            for big in ["8", "16", "64", "255", "65536"] {
                for &ti in &inside {
                    for (delta, xor) in [(1i64, 0u64), (4, 0), (0, 8), (0, 32), (15, 0), (200, 0)] {
                        go(vec![MsgFault::NumReplace { index: sz, with: big.to_string() }, MsgFault::NumShift { index: ti, delta, xor }], acc);
                    }
                }
            }
        }
        // every byte duplicated / deleted (length-changing transport damage)
        for off in 0..msg.len() {
            go(vec![MsgFault::ByteDup { off }], acc);
            go(vec![MsgFault::ByteDel { off }], acc);
        }
        // flush the last partial batch
        let _ = &mut go;
        let ws = std::mem::take(&mut batch);
        absorb_batch(&run_worlds(keys, &ws), &ws, acc);
    }
}

pub fn make_world(plan: &CasePlan, seed: u64, idx: u64) -> (World, &'static str, Prng) {
    let (family, _) = plan.family(idx);
    let mut p = Prng::for_case(seed, "C16", idx);
    let keys = Keys::draw(&mut p);
    let w = draw_world(plan, family, idx, keys, &mut p);
    (w, family, p)
}

/// How many messages the receiver of one case handles, one after the other on one thread.
pub fn stream_len(family: &str) -> usize {
    match family {
        "honest" => 4,
        "seeded" | "bristol" => 16,
        _ => 1,
    }
}

fn draw_world(plan: &CasePlan, family: &str, idx: u64, keys: Keys, p: &mut Prng) -> World {
    let dedup = p.chance(3, 4);
    let mut w = World { program: None, dedup, keys, channel: Channel::JsonSsa, faults: vec![], raw_message: None, prior: vec![], no_threads: false, threads_refused_after: None, env_flip: vec![], stdio_broken: None, misuse_before: None, stack_kib: None, plain_build: false };
    match family {
        "honest" => {
            // compiler / converter outputs must be accepted (fault-free channel)
            let prog = if p.chance(1, 3) && !plan.corpus.is_empty() {
                let e = p.pick(&plan.corpus);
                let mut ap = p.fork();
                let a = analyse(&e.src, &mut ap);
                ProgSpec { name: e.name.clone(), src: e.src.clone(), consts: a.consts }
            } else if p.chance(1, 2) {
                let src = gen::program(p);
                let mut ap = p.fork();
                let a = analyse(&src, &mut ap);
                ProgSpec { name: "generated".into(), src, consts: a.consts }
            } else if p.chance(1, 6) {
                tiny_subject(p)
            } else {
                small_subject(p)
            };
            w.program = Some(prog);
            w.channel = *p.pick(&[Channel::JsonSsa, Channel::JsonReg, Channel::JsonTypeSsa, Channel::JsonTypeReg]);
        }
        "large" => {
            w.program = Some(ProgSpec { name: "huge".into(), src: gen::huge_program(p), consts: vec![] });
            w.dedup = true;
            w.channel = Channel::JsonSsa;
        }
        "sweep" => {
            let (_, sub) = plan.family(idx);
            w.program = Some(sweep_subject(sub, p));
            w.dedup = sub % 2 == 0 || sub >= N_FIXED_TINY && w.dedup;
        }
        "seeded" => {
            w.program = Some(if p.chance(1, 2) { tiny_subject(p) } else { small_subject(p) });
            w.channel = *p.pick(&[Channel::JsonSsa, Channel::JsonReg, Channel::JsonReg, Channel::JsonTypeSsa, Channel::JsonTypeReg]);
            if let Some(msg) = message_of(&w) {
                w.faults = draw_faults(p, &msg, w.channel);
            }
        }
        _ => {
            w.program = Some(if p.chance(1, 2) { tiny_subject(p) } else { small_subject(p) });
            w.channel = Channel::Bristol;
            if let Some(msg) = message_of(&w) {
                w.faults = draw_faults(p, &msg, w.channel);
            }
        }
    }
    if family != "large" && family != "sweep" && p.chance(1, 6) {
        w.misuse_before = Some(p.range(1, 7) as u8);
    }
    w
}

fn has_class(o: &Obs, class: &str) -> Option<Finding> {
    o.findings.iter().find(|f| f.class == class).cloned()
}

pub fn minimise(w: &World, f: &Finding, history: &[World]) -> (World, Finding) {
    if w.plain_build || w.stack_kib.is_some() || !w.env_flip.is_empty() {
        // worlds that need a process of their own (another build, a small stack, another environment)
        return (w.clone(), f.clone());
    }
    let class = f.class.clone();
    let mut best = w.clone();
    let mut bf = f.clone();
    // does the world reproduce on a fresh receiver? if not, the receiver's history matters
    if has_class(&run_world(&best), &class).is_none() && !history.is_empty() {
        let mut cand = best.clone();
        cand.prior = history.to_vec();
        match has_class(&run_world(&cand), &class) {
            None => return (best, bf), // reported as irreproducible by the driver
            Some(f2) => {
                best = cand;
                bf = f2;
            }
        }
        // shrink the history: drop chunks while the finding persists
        let mut chunk = (best.prior.len() / 2).max(1);
        let mut budget = 80;
        while chunk >= 1 && budget > 0 {
            let mut i = 0;
            let mut progressed = false;
            while i < best.prior.len() && budget > 0 {
                budget -= 1;
                let mut cand = best.clone();
                let end = (i + chunk).min(cand.prior.len());
                cand.prior.drain(i..end);
                if let Some(f2) = has_class(&run_world(&cand), &class) {
                    best = cand;
                    bf = f2;
                    progressed = true;
                } else {
                    i = end;
                }
            }
            if chunk == 1 && !progressed {
                break;
            }
            chunk = if chunk > 1 { chunk / 2 } else { 1 };
        }
        bf.what = format!("{} [only on a receiver that handled {} earlier messages on the same thread]", bf.what, best.prior.len());
    }
    if best.misuse_before.is_some() || best.prior.iter().any(|q| q.misuse_before.is_some()) {
        let mut cand = best.clone();
        cand.misuse_before = None;
        for q in cand.prior.iter_mut() {
            q.misuse_before = None;
        }
        if let Some(f2) = has_class(&run_world(&cand), &class) {
            best = cand;
            bf = f2;
        } else {
            bf.what = format!("{} [only after another caller in the same process provoked a documented panic of eval (wrongly shaped inputs, caught)]", bf.what);
        }
    }
    let mut i = 0;
    while i < best.faults.len() && best.faults.len() > 1 {
        let mut cand = best.clone();
        cand.faults.remove(i);
        let o = run_world(&cand);
        if let Some(f2) = has_class(&o, &class) {
            best = cand;
            bf = f2;
        } else {
            i += 1;
        }
    }
    (best, bf)
}

pub fn replay_json(w: &World, f: &Finding, seed: u64, idx: Option<u64>) -> serde_json::Value {
    // include the damaged message for the reader
    let damaged = {
        let w2 = w.clone();
        message_of(&World { faults: vec![], ..w2.clone() }).map(|mut m| {
            for f in &w2.faults {
                apply_fault(&mut m, f);
            }
            String::from_utf8_lossy(&m).chars().take(2000).collect::<String>()
        })
    };
    serde_json::json!({
        "property": "C16", "class": f.class, "signature": f.signature, "verif_seed": seed, "case": idx,
        "world": w,
        "damaged_message": damaged,
        "observed": { "what": f.what },
    })
}

pub fn replay(v: &serde_json::Value) -> Result<Vec<Finding>, String> {
    let w: World = serde_json::from_value(v["world"].clone()).map_err(|e| format!("bad replay file: {e}"))?;
    if w.plain_build {
        let o = run_world(&World { plain_build: false, ..w.clone() });
        let items: Vec<(World, CircuitType, bool)> = o.plain_values.iter().map(|(ct, h)| (w.clone(), ct.clone(), *h)).collect();
        let mut c = BTreeMap::new();
        return Ok(judge_plain(&items, &mut c).into_iter().map(|(_, f)| f).collect());
    }
    if w.stack_kib.is_some() || !w.env_flip.is_empty() {
        // dimensions of the receiving PROCESS (its environment, the stack of the calling thread):
        // such a world runs in a child process of its own, as it did when it was found
        let kind = if matches!(w.channel, Channel::JsonReg | Channel::JsonTypeReg) { "reg" } else { "ssa" };
        let mut o = Obs::default();
        huge_via_child(&w, kind, &mut o);
        return Ok(o.findings);
    }
    Ok(run_world(&w).findings)
}

pub fn run_case(plan: &CasePlan, seed: u64, idx: u64) -> CaseResult {
    let (w, family, p) = make_world(plan, seed, idx);
    let mut acc = Acc {
        executions: 0,
        counters: BTreeMap::new(),
        values: BTreeSet::new(),
        accepted_damaged: 0,
        d: Digest::new(),
        seen: BTreeSet::new(),
        pending: vec![],
        last_summary: String::new(),
        plain_queue: vec![],
        plain_seen: BTreeSet::new(),
    };
    acc.d.u64(idx);
    acc.d.str(&serde_json::to_string(&w).unwrap());
    let mut p = p;
    clear_message_cache();
    if family == "sweep" {
        run_sweep(&w, &mut acc);
        // the receiver's process has a caller that provoked the documented panics of eval before
        // the honest message arrives (in every encoding)
        for ch in [Channel::JsonSsa, Channel::JsonReg, Channel::JsonTypeSsa, Channel::JsonTypeReg] {
            let m = World { faults: vec![], channel: ch, misuse_before: Some(7), ..w.clone() };
            let stream = vec![m.clone(), World { misuse_before: None, ..m }];
            let obs = run_worlds(w.keys, &stream);
            absorb_batch(&obs, &stream, &mut acc);
        }
    } else if family == "large" {
        run_large(&w, &mut acc);
        *acc.counters.entry("threads_refused_to_code_under_test".into()).or_insert(0) += seams::THREADS_REFUSED.swap(0, std::sync::atomic::Ordering::Relaxed);
    } else {
        // the receiver handles a stream of messages on one thread (a long-lived receiver)
        let mut stream = vec![w.clone()];
        for _ in 1..stream_len(family) {
            stream.push(draw_world(plan, family, idx, w.keys, &mut p));
        }
        let obs = run_worlds(w.keys, &stream);
        absorb_batch(&obs, &stream, &mut acc);
    }
    // environment discovery: if the receiver asked for environment variables, receive the honest
    // message once more in a fresh process in which they read differently, with and without a
    // working stdout/stderr
    let asked = seams::take_env_queries();
    if std::env::var("VERIF_DEBUG_ENV").is_ok() {
        eprintln!("env asked: {asked:?}");
    }
    *acc.counters.entry("environment_variables_asked_for".into()).or_insert(0) += asked.len() as u64;
    if !asked.is_empty() && w.program.is_some() {
        for stdio in [None, Some(libc::EPIPE)] {
            for ch in [Channel::JsonSsa, Channel::JsonReg] {
                let mut w2 = World { faults: vec![], prior: vec![], channel: ch, ..w.clone() };
                w2.env_flip = asked.clone();
                w2.stdio_broken = stdio;
                let mut o = Obs::default();
                huge_via_child(&w2, if ch == Channel::JsonSsa { "ssa" } else { "reg" }, &mut o);
                bump(&mut o.counters, "environment_flipped_receivers");
                absorb(&o, &w2, &mut acc);
            }
        }
    }
    // a receiver whose calling thread has a small stack (musl's default thread stack is 128 KiB):
    // the honest message once more, in a child process, in SSA and register form
    if family != "large" && w.program.is_some() && message_of(&World { faults: vec![], ..w.clone() }).map(|m| m.len() < 200_000).unwrap_or(false) {
        for ch in [Channel::JsonSsa, Channel::JsonReg] {
            let w2 = World { faults: vec![], prior: vec![], channel: ch, stack_kib: Some(128), misuse_before: None, ..w.clone() };
            let mut o = Obs::default();
            huge_via_child(&w2, if ch == Channel::JsonSsa { "ssa" } else { "reg" }, &mut o);
            bump(&mut o.counters, "small_stack_receivers");
            absorb(&o, &w2, &mut acc);
        }
    }
    // the differently built receiver (default cargo features, release): one child for the case
    let queue = std::mem::take(&mut acc.plain_queue);
    for (j, f) in judge_plain(&queue, &mut acc.counters) {
        if acc.seen.insert(f.signature.clone()) {
            acc.pending.push((queue[j].0.clone(), f, vec![]));
        }
    }
    acc.d.u64(p.draws);
    *acc.counters.entry("damaged_circuits_accepted_and_evaluated".into()).or_insert(0) += acc.accepted_damaged;
    let mut violations = vec![];
    for (fw, f, hist) in std::mem::take(&mut acc.pending) {
        let (mw, mf) = minimise(&fw, &f, &hist);
        violations.push(Violation {
            property: "C16".into(),
            class: mf.class.clone(),
            signature: mf.signature.clone(),
            what: mf.what.clone(),
            replay: replay_json(&mw, &mf, seed, Some(idx)),
        });
    }
    let sample = serde_json::json!({
        "case": idx, "family": family, "channel": w.channel,
        "program": w.program.as_ref().map(|p| p.src.lines().take(5).collect::<Vec<_>>().join("\n")),
        "faults": w.faults, "outcome": acc.last_summary,
    });
    CaseResult {
        idx,
        family: family.to_string(),
        digest: acc.d.hex(),
        evaluations: acc.executions,
        nontrivial: acc.values.into_iter().take(50000).collect(),
        sets: BTreeMap::new(),
        counters: acc.counters,
        violations,
        sample: Some(sample),
    }
}
