//! C06 — compilation is deterministic. World: P simulated parties (threads whose SipHash keys
//! come from the getrandom seam), each executing a PRNG-drawn history of compilations of the same
//! (source, logical constants, function, options). Oracle: every party and every repetition must
//! produce the same outcome class and, for Ok, a structurally identical circuit.

use crate::gen;
use crate::prng::{Digest, Prng};
use crate::supervise::{CaseResult, Violation};
use crate::workload::*;
use serde::{Deserialize, Serialize};
use std::collections::{BTreeMap, BTreeSet};

#[derive(Clone, Debug, Serialize, Deserialize, PartialEq, Eq)]
pub enum Mode {
    /// scan + parse + check + compile from source text
    Src,
    /// through the library entry point `compile_with_options` (main only)
    Lib,
    /// re-use the program this party type-checked once (same definition maps, new builder maps)
    Typed,
    /// process history: compile ANOTHER program first (`warm_src`); its result is not compared
    Warm,
    /// like Typed, but the type-checked program first goes through serde_json and back (a service
    /// that type-checks once and ships the TypedProgram to its workers)
    TypedSerde,
    /// history of the TypedProgram OBJECT: the program this party type-checked once is first
    /// compiled with OTHER constant values (another session of a service that type-checks once and
    /// compiles per session); its result is not compared, but it must not leave anything behind
    /// in the TypedProgram that changes the next compilation
    TypedOther,
    /// through `compile_with_constants(src, consts)`, i.e. with the library's DEFAULT options (main
    /// only; the step's `opts` are what the defaults are documented to be: SSA, duplicate gates optimised)
    Default,
}

#[derive(Clone, Debug, Serialize, Deserialize, PartialEq, Eq)]
pub struct Step {
    pub fn_name: String,
    pub opts: Opts,
    pub mode: Mode,
    /// insertion order of the constants (logically the same map)
    #[serde(default)]
    pub perm: Vec<usize>,
    #[serde(default)]
    pub cap: usize,
    /// only for Mode::Warm: the other program this process compiled earlier
    #[serde(default)]
    pub warm_src: Option<String>,
    /// where the source text sits in memory: address of its first byte modulo 8 (a literal, an
    /// `include_str!`, a slice of a received message are not aligned the way a `String` is)
    #[serde(default)]
    pub src_offset: u8,
}

/// A copy of `src` whose first byte sits at an address that is `off` modulo 8.
struct Placed {
    buf: Vec<u8>,
    start: usize,
    len: usize,
}

impl Placed {
    fn new(src: &str, off: u8) -> Placed {
        let mut buf = vec![b' '; src.len() + 16];
        let base = buf.as_ptr() as usize % 8;
        let start = (off as usize % 8 + 8 - base) % 8;
        buf[start..start + src.len()].copy_from_slice(src.as_bytes());
        Placed { buf, start, len: src.len() }
    }
    fn as_str(&self) -> &str {
        std::str::from_utf8(&self.buf[self.start..self.start + self.len]).unwrap_or("")
    }
}

#[derive(Clone, Debug, Serialize, Deserialize, PartialEq, Eq)]
pub struct PartySpec {
    pub keys: Keys,
    pub steps: Vec<Step>,
    /// run this party as a fresh OS process (its main thread takes the keys) instead of a thread:
    /// covers process-wide state (statics), which threads of one simulator process would share
    #[serde(default)]
    pub process: bool,
    /// memory pressure (process parties only): every single allocation larger than this many
    /// bytes fails in that process. Such a party may die (abort on allocation failure) — that is
    /// not a C06 matter — but if it returns a circuit, it must be the same circuit.
    #[serde(default)]
    pub alloc_limit: Option<usize>,
    /// environment variables that read differently in this (process) party: set to "1" if really
    /// unset, unset if really set. The names are discovered at run time: whatever a party asked
    /// getenv for.
    #[serde(default)]
    pub env_flip: Vec<String>,
    /// Some(k): this process party may use exactly k CPUs (taskset / cpuset / small container)
    #[serde(default)]
    pub cpus: Option<u32>,
    /// "nodebug": this process party runs a build of the library without debug assertions and
    /// overflow checks (the way `cargo build --release` compiles it)
    #[serde(default)]
    pub build: Option<String>,
}

#[derive(Clone, Debug, Serialize, Deserialize)]
pub struct World {
    pub program: ProgSpec,
    pub parties: Vec<PartySpec>,
    /// Some(seed): the thread parties do not run one after the other but CONCURRENTLY in one
    /// process, interleaved by the baton scheduler at the compiler's yield points (statement /
    /// expression / build / register allocation); the choice sequence is drawn from this seed
    #[serde(default)]
    pub concurrent: Option<u64>,
}

#[derive(Clone, Debug, Serialize, Deserialize)]
pub struct ProbeRec {
    pub site: String,
    pub keys: usize,
    pub fp: u64,
}

/// per party: per step (outcome, hash-iteration probes recorded during the step)
pub type WorldResult = Vec<Result<Vec<(Outcome, Vec<ProbeRec>)>, String>>;

fn drain_probes() -> Vec<ProbeRec> {
    garble_lang::verif_hooks::drain()
        .into_iter()
        .map(|p| ProbeRec { site: p.site.to_string(), keys: p.keys, fp: p.order_fingerprint })
        .collect()
}

fn run_steps(prog: &ProgSpec, steps: &[Step]) -> Vec<(Outcome, Vec<ProbeRec>)> {
    let mut typed: Option<Result<garble_lang::TypedProgram, Outcome>> = None;
    let mut out = vec![];
    let _ = drain_probes();
    for s in steps {
        let consts = build_consts(&prog.consts, &s.perm, s.cap);
        let placed = Placed::new(if s.mode == Mode::Warm { s.warm_src.as_deref().unwrap_or("") } else { &prog.src }, s.src_offset);
        let src = placed.as_str();
        let o = match s.mode {
            Mode::Src => outcome_of(guarded(|| compile_src(src, &s.fn_name, consts, s.opts, false))).0,
            Mode::Lib => outcome_of(guarded(|| compile_src(src, &s.fn_name, consts, s.opts, true))).0,
            Mode::Default => outcome_of(guarded(|| garble_lang::compile_with_constants(src, consts).map(|g| g.circuit))).0,
            Mode::Warm => outcome_of(guarded(|| compile_src(src, "main", std::collections::HashMap::new(), Opts { register: false, dedup: true }, false))).0,
            Mode::Typed | Mode::TypedOther | Mode::TypedSerde => {
                if typed.is_none() {
                    let r = guarded(|| garble_lang::check(src));
                    typed = Some(match r {
                        Ok(Ok(tp)) => Ok(tp),
                        Ok(Err(e)) => Err(outcome_of(Ok(Err(e))).0),
                        Err(m) => Err(Outcome::Panic { msg: m }),
                    });
                }
                let consts = if s.mode == Mode::TypedOther {
                    let other: Vec<ConstSpec> = prog
                        .consts
                        .iter()
                        .map(|c| ConstSpec { val: if c.ty == "bool" { 1 - (c.val & 1) } else { c.val + 1 + (s.cap as i64 % 3) }, ..c.clone() })
                        .collect();
                    build_consts(&other, &s.perm, 0)
                } else {
                    consts
                };
                match typed.as_ref().unwrap() {
                    Ok(tp) if s.mode == Mode::TypedSerde => outcome_of(guarded(|| {
                        let shipped: garble_lang::TypedProgram = serde_json::from_str(&serde_json::to_string(tp).expect("TypedProgram serialises")).expect("TypedProgram deserialises");
                        compile_typed(&shipped, &s.fn_name, consts, s.opts)
                    }))
                    .0,
                    Ok(tp) => outcome_of(guarded(|| compile_typed(tp, &s.fn_name, consts, s.opts))).0,
                    Err(o) => o.clone(),
                }
            }
        };
        out.push((o, drain_probes()));
    }
    out
}

fn yield_hook(_site: &'static str) {
    crate::sched::point();
}

/// Run the thread parties of a world concurrently under the baton scheduler.
fn run_concurrently(w: &World, seed: u64) -> Vec<(usize, Result<Vec<(Outcome, Vec<ProbeRec>)>, String>)> {
    let idxs: Vec<usize> = (0..w.parties.len()).filter(|&i| !w.parties[i].process).collect();
    let n = idxs.len();
    crate::sched::begin(n, Prng::new(seed), None);
    garble_lang::verif_hooks::set_yield_hook(Some(yield_hook));
    let mut handles = vec![];
    for (tid, &pi) in idxs.iter().enumerate() {
        let party = w.parties[pi].clone();
        let prog = w.program.clone();
        let h = std::thread::Builder::new().stack_size(64 << 20).spawn(move || {
            struct Leave;
            impl Drop for Leave {
                fn drop(&mut self) {
                    crate::sched::leave();
                }
            }
            crate::seams::set_thread_keys(party.keys.k0, party.keys.k1);
            crate::sched::enter(tid);
            let _g = Leave;
            for _ in 0..party.keys.drift.max(1) {
                let m: std::collections::HashMap<u8, u8> = std::collections::HashMap::new();
                std::hint::black_box(&m);
            }
            crate::seams::enter_party_clock(party_time_ns(&party.keys), party_clock_step_ns(&party.keys));
            crate::seams::enter_party_env(vec![]);
            let r = guarded(|| run_steps(&prog, &party.steps));
            crate::seams::leave_party_env();
            crate::seams::leave_party_clock();
            r
        });
        handles.push((pi, h));
    }
    crate::sched::start();
    let mut out = vec![];
    for (pi, h) in handles {
        let r = match h {
            Ok(h) => match h.join() {
                Ok(r) => r,
                Err(_) => Err("party thread died".to_string()),
            },
            Err(e) => Err(format!("spawn failed: {e}")),
        };
        out.push((pi, r));
    }
    let (_trace, points) = crate::sched::end();
    garble_lang::verif_hooks::set_yield_hook(None);
    SCHED_POINTS.fetch_add(points, std::sync::atomic::Ordering::Relaxed);
    out
}

pub static SCHED_POINTS: std::sync::atomic::AtomicU64 = std::sync::atomic::AtomicU64::new(0);

pub fn run_world(w: &World) -> WorldResult {
    let mut res = vec![];
    let mut concurrent: BTreeMap<usize, Result<Vec<(Outcome, Vec<ProbeRec>)>, String>> = BTreeMap::new();
    if let Some(seed) = w.concurrent {
        concurrent.extend(run_concurrently(w, seed));
    }
    for (pi, party) in w.parties.iter().enumerate() {
        if let Some(r) = concurrent.remove(&pi) {
            res.push(r);
            continue;
        }
        if party.process {
            res.push(run_process_party(&w.program, party));
            continue;
        }
        let prog = w.program.clone();
        let steps = party.steps.clone();
        res.push(run_party(party.keys, move || run_steps(&prog, &steps)));
    }
    res
}

/// environment variables any party of the current case asked for (thread parties via the seam's
/// own set, process parties via their ENVQ line)
static ENV_DISCOVERED: std::sync::Mutex<BTreeSet<String>> = std::sync::Mutex::new(BTreeSet::new());

pub fn take_discovered_env() -> Vec<String> {
    let mut d = std::mem::take(&mut *ENV_DISCOVERED.lock().unwrap_or_else(|e| e.into_inner()));
    d.extend(crate::seams::take_env_queries());
    d.into_iter().collect()
}

/// A party as a real, fresh OS process: re-executes this binary (`c06-child`), whose main thread
/// takes the keys from the seam and runs the steps.
/// A party built with default cargo features in release mode (crate /verif/plain, mode `compile`):
/// no `serde`, no `verif_hooks`, its hash keys are whatever the OS hands it.
fn run_plain_party(prog: &ProgSpec, party: &PartySpec) -> Result<Vec<(Outcome, Vec<ProbeRec>)>, String> {
    use std::io::Write;
    let miri = matches!(party.build.as_deref(), Some("miri32") | Some("miribe"));
    let exe = if miri {
        let var = if party.build.as_deref() == Some("miribe") { "VERIF_MIRIBE" } else { "VERIF_MIRI32" };
        std::path::PathBuf::from(std::env::var(var).map_err(|_| "no miri32 / miribe party available (not a C06 run through ./check, or no nightly toolchain)")?)
    } else {
        plain_bin().ok_or("no plain build available (not a run through ./check)")?
    };
    let mut input = format!("SRC {}\n", hex(prog.src.as_bytes()));
    for s in &party.steps {
        if s.mode == Mode::Warm {
            input.push_str(&format!("WARM {}\n", hex(s.warm_src.as_deref().unwrap_or("").as_bytes())));
            continue;
        }
        if s.mode == Mode::TypedOther {
            continue;
        }
        input.push_str("CLEAR\n");
        let order: Vec<usize> = if s.perm.len() == prog.consts.len() { s.perm.clone() } else { (0..prog.consts.len()).collect() };
        for i in order {
            let c = &prog.consts[i];
            input.push_str(&format!("CONST {} {} {} {}\n", c.party, c.name, c.ty, c.val));
        }
        input.push_str(&format!("GO {} {} {} {}\n", s.fn_name, s.opts.register as u8, s.opts.dedup as u8, if s.mode == Mode::Default { 2 } else { (s.mode == Mode::Lib) as u8 }));
    }
    // miri32: VERIF_MIRI32 is a script that runs /verif/plain under `cargo +nightly miri run --target
    // i686-unknown-linux-gnu`: the same party on a machine with 32-bit words
    let mut child = child_command(&exe)
        .arg("compile")
        .stdin(std::process::Stdio::piped())
        .stdout(std::process::Stdio::piped())
        .stderr(std::process::Stdio::null())
        .spawn()
        .map_err(|e| format!("spawn: {e}"))?;
    let mut stdin = child.stdin.take().unwrap();
    let writer = std::thread::spawn(move || {
        let _ = stdin.write_all(input.as_bytes());
    });
    let out = child.wait_with_output().map_err(|e| e.to_string())?;
    let _ = writer.join();
    if !out.status.success() {
        return Err(format!("plain party died: {}", out.status));
    }
    let text = String::from_utf8_lossy(&out.stdout).to_string();
    let mut answers = text.lines();
    let mut res = vec![];
    for s in &party.steps {
        if s.mode == Mode::Warm || s.mode == Mode::TypedOther {
            res.push((Outcome::Ok { digest: "warm".into(), size: 0 }, vec![]));
            continue;
        }
        let l = answers.next().ok_or("plain party: missing answer")?;
        let o = if let Some(rest) = l.strip_prefix("OK ") {
            let kind = rest.chars().next().unwrap_or('S');
            let flat: Vec<u64> = rest[1..].split_ascii_whitespace().filter_map(|t| t.parse().ok()).collect();
            match unflatten(kind, &flat) {
                Some(ct) => outcome_of(Ok(Ok(ct))).0,
                None => return Err("plain party: unreadable circuit".into()),
            }
        } else if let Some(class) = l.strip_prefix("ERR ") {
            Outcome::Err { class: class.to_string(), detail: String::new() }
        } else {
            Outcome::Panic { msg: l.strip_prefix("PANIC ").unwrap_or(l).to_string() }
        };
        res.push((o, vec![]));
    }
    Ok(res)
}

fn run_process_party(prog: &ProgSpec, party: &PartySpec) -> Result<Vec<(Outcome, Vec<ProbeRec>)>, String> {
    use std::io::Write;
    if matches!(party.build.as_deref(), Some("plain") | Some("miri32") | Some("miribe")) {
        return run_plain_party(prog, party);
    }
    let exe = match party.build.as_deref() {
        Some("nodebug") => match std::env::var("VERIF_NODEBUG_BIN") {
            Ok(p) if std::path::Path::new(&p).exists() => std::path::PathBuf::from(p),
            _ => return Err("no nodebug build available (not a thorough run through ./check)".into()),
        },
        Some("devbuild") => match std::env::var("VERIF_DEVBUILD_BIN") {
            Ok(p) if std::path::Path::new(&p).exists() => std::path::PathBuf::from(p),
            _ => return Err("no devbuild (nodebug-style twin) available (not a thorough run through ./check)".into()),
        },
        Some("native") => match std::env::var("VERIF_NATIVE_BIN") {
            Ok(p) if std::path::Path::new(&p).exists() => std::path::PathBuf::from(p),
            _ => return Err("no native build (nodebug-style twin) available (not a run through ./check)".into()),
        },
        _ => std::env::current_exe().map_err(|e| e.to_string())?,
    };
    let single = World { program: prog.clone(), parties: vec![PartySpec { process: false, ..party.clone() }], concurrent: None };
    let pressure = party.alloc_limit.is_some();
    let mut child = child_command(&exe)
        .arg("c06-child")
        .env("RUST_BACKTRACE", "0")
        .stdin(std::process::Stdio::piped())
        .stdout(std::process::Stdio::piped())
        .stderr(std::process::Stdio::null())
        .spawn()
        .map_err(|e| format!("spawn: {e}"))?;
    child
        .stdin
        .take()
        .unwrap()
        .write_all(serde_json::to_string(&single).unwrap().as_bytes())
        .map_err(|e| e.to_string())?;
    let out = child.wait_with_output().map_err(|e| e.to_string())?;
    if !out.status.success() {
        return Err(format!("process party died{}: {}", if pressure { " under memory pressure" } else { "" }, out.status));
    }
    let mut lines = out.stdout.split(|b| *b == b'\n');
    let line = lines.next().unwrap_or(b"[]");
    if let Some(q) = lines.next().and_then(|l| l.strip_prefix(b"ENVQ ")) {
        if let Ok(names) = serde_json::from_slice::<Vec<String>>(q) {
            ENV_DISCOVERED.lock().unwrap_or_else(|e| e.into_inner()).extend(names);
        }
    }
    serde_json::from_slice::<Vec<(Outcome, Vec<ProbeRec>)>>(line).map_err(|e| format!("process party output: {e}"))
}

#[derive(Clone, Debug)]
pub struct Finding {
    pub class: String,
    pub signature: String,
    pub what: String,
    pub fn_name: String,
    pub opts: Opts,
    /// (party, step) of two disagreeing observations
    pub a: (usize, usize),
    pub b: (usize, usize),
    pub oa: Outcome,
    pub ob: Outcome,
}

fn describe(o: &Outcome) -> String {
    match o {
        Outcome::Ok { digest, size } => format!("Ok(circuit {digest}, {size} gates)"),
        Outcome::Err { class, .. } => format!("Err({class})"),
        Outcome::Panic { msg } => format!("panicked({msg})"),
    }
}

pub fn judge(w: &World, r: &WorldResult) -> (Vec<Finding>, BTreeMap<String, u64>) {
    let mut counters: BTreeMap<String, u64> = BTreeMap::new();
    let mut groups: BTreeMap<(String, String), Vec<((usize, usize), Outcome, Opts)>> = BTreeMap::new();
    for (pi, (party, pr)) in w.parties.iter().zip(r.iter()).enumerate() {
        match pr {
            Ok(outs) => {
                if party.alloc_limit.is_some() {
                    *counters.entry("memory_pressure_party_completed".into()).or_insert(0) += 1;
                }
                if let Some(k) = party.cpus {
                    *counters.entry(format!("party_on_{k}_cpus_completed")).or_insert(0) += 1;
                }
                if let Some(b) = &party.build {
                    *counters.entry(format!("{b}_build_party_completed")).or_insert(0) += 1;
                }
                for (si, (s, (o, _))) in party.steps.iter().zip(outs.iter()).enumerate() {
                    if s.mode == Mode::Warm || s.mode == Mode::TypedOther {
                        *counters.entry("warm_compilations".into()).or_insert(0) += 1;
                        continue;
                    }
                    *counters.entry(format!("outcome_{}", o.class())).or_insert(0) += 1;
                    groups
                        .entry((s.fn_name.clone(), s.opts.name()))
                        .or_default()
                        .push(((pi, si), o.clone(), s.opts));
                }
            }
            Err(e) => {
                *counters
                    .entry(
                        if e.contains("memory pressure") {
                            "process_party_died_under_memory_pressure"
                        } else if e.contains("nodebug") {
                            "nodebug_party_unavailable"
                        } else {
                            "party_failed"
                        }
                        .to_string(),
                    )
                    .or_insert(0) += 1;
            }
        }
    }
    let mut findings = vec![];
    for ((fn_name, _), obs) in groups {
        let first = &obs[0];
        if let Some(other) = obs.iter().find(|o| o.1.key() != first.1.key()) {
            let class = match (&first.1, &other.1) {
                (Outcome::Ok { .. }, Outcome::Ok { .. }) => "circuits_differ",
                _ => "outcome_differs",
            };
            let site = [&first.1, &other.1]
                .iter()
                .find_map(|o| match o {
                    Outcome::Panic { msg } => Some(format!(":panic@{}", panic_site(msg))),
                    _ => None,
                })
                .unwrap_or_default();
            findings.push(Finding {
                class: class.into(),
                signature: format!("{class}{site}"),
                what: format!(
                    "same source, constants and options ({fn_name}, {}): party {} got {} but party {} got {}",
                    first.2.name(),
                    first.0 .0,
                    describe(&first.1),
                    other.0 .0,
                    describe(&other.1)
                ),
                fn_name,
                opts: first.2,
                a: first.0,
                b: other.0,
                oa: first.1.clone(),
                ob: other.1.clone(),
            });
        } else {
            // identical keys; note diverging diagnostics (not a violation: the statement promises circuits)
            if let Outcome::Err { detail, .. } = &first.1 {
                if obs.iter().any(|o| matches!(&o.1, Outcome::Err { detail: d2, .. } if d2 != detail)) {
                    *counters.entry("err_lists_differ".into()).or_insert(0) += 1;
                }
            }
        }
    }
    (findings, counters)
}

// ------------------------------------------------------------------------------------------
// case generation
// ------------------------------------------------------------------------------------------

pub struct Tier {
    pub parties: usize,
    pub generated: u64,
    pub ill_typed: u64,
    /// large programs (10^5..10^6 gates), few parties
    pub big: u64,
    /// parties compile concurrently in one process under the baton scheduler
    pub concurrent: u64,
    /// programs of several million gates (beyond 2^20-entry table thresholds); very few parties
    pub huge: u64,
    /// expressions nested 50 .. 4000 levels deep (decisions that depend on recursion depth / stack use)
    pub deep: u64,
}

pub fn tier(t: &str) -> Tier {
    if t == "thorough" {
        Tier { parties: 48, generated: 40_000, ill_typed: 2_000, big: 96, concurrent: 3_000, huge: 8, deep: 1_200 }
    } else {
        Tier { parties: 12, generated: 1_500, ill_typed: 100, big: 8, concurrent: 120, huge: 1, deep: 24 }
    }
}

pub struct Plan {
    pub corpus: Vec<CorpusEntry>,
    pub n_corpus: u64,
    pub tier: Tier,
    /// every case with process parties also has one running the no-debug-assertions build (and some a development build)
    pub nodebug_parties: bool,
}

impl Plan {
    pub fn load(t: &str) -> Result<Plan, String> {
        let corpus = load_corpus()?;
        let n = corpus.len() as u64;
        Ok(Plan { corpus, n_corpus: n, tier: tier(t), nodebug_parties: true })
    }
    pub fn n_cases(&self) -> u64 {
        self.n_corpus + self.tier.generated + self.tier.ill_typed + self.tier.big + self.tier.concurrent + self.tier.huge + self.tier.deep
    }
}

fn simple_step(fn_name: &str, opts: Opts) -> Step {
    Step { fn_name: fn_name.into(), opts, mode: Mode::Src, perm: vec![], cap: 0, warm_src: None, src_offset: 0 }
}

fn draw_party(p: &mut Prng, fns: &[String], nconsts: usize, light: bool) -> PartySpec {
    let keys = Keys::draw(p);
    let mut combos: Vec<(String, Opts)> = vec![];
    for f in fns {
        for o in Opts::all() {
            combos.push((f.clone(), o));
        }
    }
    p.shuffle(&mut combos);
    if light {
        combos.truncate(2);
    }
    let extra = if light { 0 } else { p.below(3) as usize };
    for _ in 0..extra {
        let c = p.pick(&combos).clone();
        combos.push(c);
    }
    let typed_party = p.chance(1, 3);
    let steps = combos
        .into_iter()
        .map(|(f, o)| {
            let mode = if typed_party && p.chance(1, 4) {
                Mode::TypedSerde
            } else if typed_party && p.chance(2, 3) {
                Mode::Typed
            } else if f == "main" && p.chance(1, 4) {
                Mode::Lib
            } else if f == "main" && !o.register && o.dedup && p.chance(1, 3) {
                Mode::Default
            } else {
                Mode::Src
            };
            let mut perm: Vec<usize> = (0..nconsts).collect();
            if p.chance(1, 2) {
                p.shuffle(&mut perm);
            }
            let cap = if p.chance(1, 2) { 0 } else { p.below(64) as usize };
            Step { fn_name: f, opts: o, mode, perm, cap, warm_src: None, src_offset: if p.chance(1, 2) { p.below(8) as u8 } else { 0 } }
        })
        .collect();
    let mut steps: Vec<Step> = steps;
    if typed_party && nconsts > 0 {
        // other sessions of the same TypedProgram object, with other constant values, in between
        let mut k = 0;
        while k < steps.len() {
            if steps[k].mode == Mode::Typed && p.chance(1, 2) {
                let mut other = steps[k].clone();
                other.mode = Mode::TypedOther;
                other.cap = p.below(3) as usize;
                steps.insert(k, other);
                k += 1;
            }
            k += 1;
        }
    }
    PartySpec { keys, steps, process: false, alloc_limit: None, env_flip: vec![], build: None, cpus: None }
}

const KEYWORDS: &[&str] = &[
    "pub", "fn", "let", "mut", "if", "else", "match", "for", "in", "as", "true", "false", "bool", "usize", "u8", "u16", "u32", "u64", "i8",
    "i16", "i32", "i64", "struct", "enum", "const", "main", "max", "min", "join", "join_iter", "fold", "map", "update", "zz_in",
];

/// Another program that binds the identifiers of `src` in reverse lexicographic order and assigns
/// them in both branches of a conditional: the most adversarial "what else did this process
/// compile before" for any state keyed by first-seen order of names.
pub fn adversarial_warm(src: &str) -> String {
    let mut ids: BTreeSet<String> = BTreeSet::new();
    let b = src.as_bytes();
    let mut i = 0;
    while i < b.len() {
        if b[i].is_ascii_alphabetic() || b[i] == b'_' {
            let s = i;
            while i < b.len() && (b[i].is_ascii_alphanumeric() || b[i] == b'_') {
                i += 1;
            }
            let id = &src[s..i];
            let prev_is_digit = s > 0 && b[s - 1].is_ascii_digit();
            if id.chars().next().map(|c| c.is_ascii_lowercase()).unwrap_or(false) && !KEYWORDS.contains(&id) && !prev_is_digit && id != "_" {
                ids.insert(id.to_string());
            }
        } else {
            i += 1;
        }
    }
    let ids: Vec<String> = ids.into_iter().rev().take(40).collect();
    let mut out = String::from("pub fn main(zz_in: bool) -> bool {\n");
    for id in &ids {
        out.push_str(&format!("    let mut {id} = zz_in;\n"));
    }
    if ids.len() >= 2 {
        let fwd: String = ids.iter().map(|id| format!("{id} = !zz_in; ")).collect();
        let rev: String = ids.iter().rev().map(|id| format!("{id} = zz_in; ")).collect();
        out.push_str(&format!("    if zz_in {{ {fwd}}} else {{ {rev}}}\n"));
    }
    out.push_str(&format!("    zz_in{}\n}}\n", ids.first().map(|id| format!(" ^ {id}")).unwrap_or_default()));
    out
}

fn warm_step(src: String) -> Step {
    Step { fn_name: "main".into(), opts: Opts { register: false, dedup: true }, mode: Mode::Warm, perm: vec![], cap: 0, warm_src: Some(src), src_offset: 0 }
}

pub fn make_world(plan: &Plan, seed: u64, idx: u64) -> (World, String, Prng) {
    let mut p = Prng::for_case(seed, "C06", idx);
    let (family, name, src) = if idx < plan.n_corpus {
        let e = &plan.corpus[idx as usize];
        ("corpus", e.name.clone(), e.src.clone())
    } else if idx < plan.n_corpus + plan.tier.generated {
        // one in twenty: constant arithmetic at the boundaries of the number types
        // one in twenty-five: one count of the program (bindings, functions, fields, ...) is large
        let src = if p.chance(1, 20) {
            gen::const_arith_program(&mut p)
        } else if p.chance(1, 25) {
            gen::scaled_program(&mut p)
        } else if p.chance(1, 25) {
            // sizes that come from constants: arrays in structs, parameters, tuples, loops
            gen::const_sized_program(&mut p)
        } else if p.chance(1, if plan.tier.generated > 10_000 { 60 } else { 250 }) {
            // small programs around 64-bit literals, usize and shifts: what a 32-bit party sees differently
            gen::word_program(&mut p)
        } else {
            gen::program(&mut p)
        };
        ("generated", format!("gen-{idx}"), src)
    } else if idx < plan.n_corpus + plan.tier.generated + plan.tier.ill_typed {
        ("ill_typed", format!("ill-{idx}"), gen::ill_typed(&mut p))
    } else if idx < plan.n_corpus + plan.tier.generated + plan.tier.ill_typed + plan.tier.big {
        ("big", format!("big-{idx}"), gen::big_program(&mut p))
    } else if idx >= plan.n_corpus + plan.tier.generated + plan.tier.ill_typed + plan.tier.big + plan.tier.concurrent + plan.tier.huge {
        // log-uniform in 4 .. 4000: thresholds of a development build sit at a few dozen levels,
        // those of an optimised build at a few hundred or thousand
        let depth = (4.0 * (1000.0f64).powf(p.below(10_000) as f64 / 10_000.0)) as usize;
        ("deep", format!("deep-{idx}-{depth}"), gen::deep_program(&mut p, depth))
    } else if idx >= plan.n_corpus + plan.tier.generated + plan.tier.ill_typed + plan.tier.big + plan.tier.concurrent {
        let first_huge = plan.n_corpus + plan.tier.generated + plan.tier.ill_typed + plan.tier.big + plan.tier.concurrent;
        if idx == first_huge && plan.tier.huge > 1 {
            // thorough tier: one program of more than 2^24 gates, compiled to a register circuit
            ("huge", format!("giant-{idx}"), gen::giant_program(&mut p))
        } else {
            ("huge", format!("huge-{idx}"), gen::huge_program(&mut p))
        }
    } else if p.chance(1, 4) && plan.n_corpus > 0 {
        let e = &plan.corpus[p.usize_below(plan.corpus.len())];
        ("concurrent", e.name.clone(), e.src.clone())
    } else {
        ("concurrent", format!("conc-{idx}"), gen::program(&mut p))
    };
    // analysis runs as a party too (fixed keys), so that even a seed-dependent front end cannot
    // make the case itself irreproducible
    let akeys = Keys { k0: p.next_u64(), k1: p.next_u64(), drift: 0 };
    let mut ap = p.fork();
    let src2 = src.clone();
    let analysis = run_party(akeys, move || {
        let a = analyse(&src2, &mut ap);
        (a.typechecks, a.consts, a.pub_fns, a.note)
    })
    .unwrap_or((false, vec![], vec!["main".into()], "analysis failed".into()));
    let (_tc, consts, mut fns, _note) = analysis;
    if fns.iter().any(|f| f == "main") {
        fns.retain(|f| f != "main");
        p.shuffle(&mut fns);
        fns.truncate(1);
        fns.insert(0, "main".into());
    } else {
        fns.truncate(2);
    }
    if fns.is_empty() {
        fns.push("main".into());
    }
    // a function that does not exist is asked for as well: every party must get the same error
    if !matches!(family, "big" | "huge" | "deep") {
        let missing = if fns.iter().any(|f| f == "main") { "no_such_function".to_string() } else { "main".to_string() };
        fns.push(missing);
    }
    let light = src.len() > 6000;
    let nparties = if family == "huge" || family == "deep" {
        2
    } else if family == "concurrent" {
        // sometimes more callers than the machine has CPUs
        if p.chance(1, 4) {
            p.range(36, 44) as usize
        } else {
            p.range(3, 7) as usize
        }
    } else if family == "big" {
        2
    } else if light {
        plan.tier.parties.min(6)
    } else {
        plan.tier.parties
    };
    let mut parties: Vec<PartySpec> = (0..nparties).map(|_| draw_party(&mut p, &fns, consts.len(), light)).collect();
    if family == "big" {
        // every party compiles the large program repeatedly: from source twice, without gate
        // de-duplication, and twice more from the program it type-checked once
        for party in parties.iter_mut() {
            let f = fns[0].clone();
            let st = |register: bool, dedup: bool, mode: Mode| Step { fn_name: f.clone(), opts: Opts { register, dedup }, mode, perm: vec![], cap: 0, warm_src: None, src_offset: 0 };
            party.steps = vec![st(false, true, Mode::Src), st(false, true, Mode::Src), st(false, false, Mode::Src), st(true, true, Mode::Typed), st(false, true, Mode::Typed)];
        }
    }
    if family == "deep" {
        for party in parties.iter_mut() {
            party.steps = vec![simple_step(&fns[0], Opts { register: false, dedup: true })];
        }
    }
    if family == "huge" {
        // two compilations from source per party, default options: enough to see whether a table
        // that overflowed was thinned the same way everywhere
        for party in parties.iter_mut() {
            let f = fns[0].clone();
            let st = Step { fn_name: f, opts: Opts { register: false, dedup: true }, mode: Mode::Src, perm: vec![], cap: 0, warm_src: None, src_offset: 0 };
            party.steps = vec![st.clone(), st];
            if name.starts_with("giant") {
                // the register allocator on more than 2^24 wires, twice per party
                let st = Step { fn_name: fns[0].clone(), opts: Opts { register: true, dedup: false }, mode: Mode::Src, perm: vec![], cap: 0, warm_src: None, src_offset: 0 };
                party.steps = vec![st.clone(), st];
            }
        }
        if name.starts_with("giant") {
            parties.truncate(2);
        }
    }
    let mut concurrent = None;
    if family == "concurrent" {
        // short histories, all at once: the interesting thing is the interleaving
        let crowd = parties.len() > 30;
        for party in parties.iter_mut() {
            party.steps.truncate(p.range(1, 3) as usize);
            if crowd {
                // a crowd: far more callers than CPUs, all doing the same default compilation at once
                party.steps = vec![simple_step(&fns[0], Opts { register: false, dedup: true })];
            }
        }
        concurrent = Some(p.next_u64());
    }
    // process history: some parties compiled something else before
    let adv = adversarial_warm(&src);
    for party in parties.iter_mut() {
        if family != "huge" && family != "deep" && p.chance(1, 3) {
            // what the process did before: the adversarial program, another generated program, or a
            // compilation that FAILS (ill-typed program; error paths must not leave state behind)
            let other = match p.below(5) {
                0 | 1 => adv.clone(),
                2 | 3 => gen::program(&mut p),
                _ => gen::ill_typed(&mut p),
            };
            party.steps.insert(0, warm_step(other));
        }
    }
    // two parties that are real, fresh OS processes with the SAME keys: one cold, one with a history
    if family == "deep" {
        // a cold process party and (thorough tier) its differently built twin
        let keys = Keys { k0: p.next_u64(), k1: p.next_u64(), drift: 0 };
        let target = simple_step(&fns[0], Opts { register: false, dedup: true });
        parties.push(PartySpec { keys, steps: vec![target.clone()], process: true, alloc_limit: None, env_flip: vec![], build: None, cpus: None });
        if plan.nodebug_parties {
            parties.push(PartySpec { keys, steps: vec![target.clone()], process: true, alloc_limit: None, env_flip: vec![], build: Some("nodebug".into()), cpus: None });
            // and a party using a development build (opt-level 0: very different stack frames)
            parties.push(PartySpec { keys, steps: vec![target], process: true, alloc_limit: None, env_flip: vec![], build: Some("devbuild".into()), cpus: None });
        }
    } else if family == "huge" {
        // one cold process party, nothing else
        let keys = Keys { k0: p.next_u64(), k1: p.next_u64(), drift: 0 };
        let target = simple_step(&fns[0], if name.starts_with("giant") { Opts { register: true, dedup: false } } else { Opts { register: false, dedup: true } });
        parties.push(PartySpec { keys, steps: vec![target.clone()], process: true, alloc_limit: None, env_flip: vec![], build: None, cpus: None });
        parties.push(PartySpec { keys, steps: vec![target], process: true, alloc_limit: None, env_flip: vec![], build: None, cpus: Some(2) });
    } else if family != "ill_typed" && !light {
        let keys = Keys { k0: p.next_u64(), k1: p.next_u64(), drift: 0 };
        let o = *p.pick(&Opts::all());
        let target = simple_step(&fns[0], o);
        let mut warm = vec![warm_step(adv)];
        if family == "big" {
            warm.push(warm_step(gen::big_program(&mut p)));
        } else if p.chance(1, 2) {
            warm.push(warm_step(gen::program(&mut p)));
        }
        warm.push(target.clone());
        parties.push(PartySpec { keys, steps: vec![target.clone()], process: true, alloc_limit: None, env_flip: vec![], build: None, cpus: None });
        if plan.nodebug_parties {
            // the cold party's twin, running a release-style build of the library
            parties.push(PartySpec { keys, steps: vec![target.clone()], process: true, alloc_limit: None, env_flip: vec![], build: Some("nodebug".into()), cpus: None });
            // ... and one built for the CPU of the machine it runs on (RUSTFLAGS=-C target-cpu=native):
            // cfg(target_feature = ...) selects other code there
            if family == "big" || p.chance(1, 3) {
                parties.push(PartySpec { keys, steps: vec![target.clone()], process: true, alloc_limit: None, env_flip: vec![], build: Some("native".into()), cpus: None });
            }
            // ... a party on a machine with 32-bit words (the plain crate interpreted by Miri for
            // i686-unknown-linux-gnu; slow, so only for the small word-size programs)
            // (thorough tier: Miri parties for one word-size program in eight, 80 or so in all)
            let with_miri = plan.tier.generated <= 10_000 || p.chance(1, 8);
            if src.starts_with(gen::WORD_MARKER) && !with_miri {
                let st = |mode: Mode| Step { fn_name: "main".into(), opts: Opts { register: false, dedup: true }, mode, perm: vec![], cap: 0, warm_src: None, src_offset: 0 };
                parties.push(PartySpec { keys, steps: vec![st(Mode::Src), st(Mode::Default)], process: true, alloc_limit: None, env_flip: vec![], build: Some("plain".into()), cpus: None });
            }
            if src.starts_with(gen::WORD_MARKER) && with_miri {
                let st = |mode: Mode| Step { fn_name: "main".into(), opts: Opts { register: false, dedup: true }, mode, perm: vec![], cap: 0, warm_src: None, src_offset: 0 };
                parties.push(PartySpec { keys, steps: vec![st(Mode::Default)], process: true, alloc_limit: None, env_flip: vec![], build: Some("miri32".into()), cpus: None });
                // ... and on a big-endian machine (Miri for s390x-unknown-linux-gnu)
                parties.push(PartySpec { keys, steps: vec![st(Mode::Default)], process: true, alloc_limit: None, env_flip: vec![], build: Some("miribe".into()), cpus: None });
                parties.push(PartySpec { keys, steps: vec![st(Mode::Src), st(Mode::Default)], process: true, alloc_limit: None, env_flip: vec![], build: Some("plain".into()), cpus: None });
            }
            // ... and one built with default cargo features in release mode (no serde, no verif_hooks)
            if family == "big" || p.chance(1, 3) {
                parties.push(PartySpec { keys, steps: vec![target.clone()], process: true, alloc_limit: None, env_flip: vec![], build: Some("plain".into()), cpus: None });
            }
            if family == "generated" && p.chance(1, 6) {
                parties.push(PartySpec { keys, steps: vec![target.clone()], process: true, alloc_limit: None, env_flip: vec![], build: Some("devbuild".into()), cpus: None });
            }
        }
        parties.push(PartySpec { keys, steps: warm, process: true, alloc_limit: None, env_flip: vec![], build: None, cpus: None });
        // the cold party's twins on machines with 1 and 2 usable CPUs (large programs always, others sometimes)
        if family == "big" || p.chance(1, 8) {
            for k in [1u32, 2] {
                parties.push(PartySpec { keys, steps: vec![target.clone()], process: true, alloc_limit: None, env_flip: vec![], build: None, cpus: Some(k) });
            }
        }
        // further processes with the same keys, under memory pressure: single allocations above
        // the limit fail. For large programs the limits 1..16 MiB are all tried: between the point
        // where a hash table can no longer grow and the point where the gate vector can no longer
        // grow there is a window (14k-32k, 28k-65k, 57k-131k, 114k-262k, 229k-524k gates) in which
        // the process survives with a table that stopped growing
        if family == "big" && p.chance(1, 2) {
            // a veteran: a long-lived process that compiled a dozen large programs before
            // (process-wide statistics, adaptive heuristics, caches that fill up over time)
            let mut hist = vec![];
            if p.chance(1, 2) {
                // a homogeneous history: the same kind of workload over and over
                let workload = gen::big_program_with(&mut p, true);
                for _ in 0..p.range(12, 16) {
                    hist.push(warm_step(workload.clone()));
                }
            } else {
                let others: Vec<String> = (0..3).map(|_| gen::big_program(&mut p)).collect();
                for k in 0..p.range(10, 14) {
                    hist.push(warm_step(if k % 4 == 3 { src.clone() } else { others[(k % 3) as usize].clone() }));
                }
            }
            hist.push(target.clone());
            parties.push(PartySpec { keys, steps: hist, process: true, alloc_limit: None, env_flip: vec![], build: None, cpus: None });
        }
        if family == "big" {
            for lim in [1usize << 20, 2 << 20, 4 << 20, 8 << 20, 16 << 20] {
                parties.push(PartySpec { keys, steps: vec![target.clone()], process: true, alloc_limit: Some(lim), env_flip: vec![], build: None, cpus: None });
            }
        } else if p.chance(1, 6) {
            let lim = *p.pick(&[1usize << 20, 2 << 20, 4 << 20, 1 << 16, 1 << 18, 1 << 14]);
            parties.push(PartySpec { keys, steps: vec![target], process: true, alloc_limit: Some(lim), env_flip: vec![], build: None, cpus: None });
        }
    }
    (World { program: ProgSpec { name, src, consts }, parties, concurrent }, family.to_string(), p)
}

// ------------------------------------------------------------------------------------------
// minimisation
// ------------------------------------------------------------------------------------------

fn probe_parties(p: &mut Prng, n: usize, fn_name: &str, opts: Opts) -> Vec<PartySpec> {
    (0..n)
        .map(|_| PartySpec {
            keys: Keys { k0: p.next_u64(), k1: p.next_u64(), drift: 0 },
            steps: vec![simple_step(fn_name, opts)],
            process: false,
            alloc_limit: None,
            env_flip: vec![],
            build: None,
            cpus: None,
        })
        .collect()
}

fn same_class(f: &Finding, class: &str) -> bool {
    f.class == class
}

/// Shrink a failing world: simple two-party histories if possible, then ddmin over source lines.
/// Every `/*` outside a line comment has its `*/` (nested comments count).
pub fn comments_balanced(src: &str) -> bool {
    let b = src.as_bytes();
    let (mut i, mut level) = (0usize, 0usize);
    while i < b.len() {
        if level == 0 && b[i] == b'/' && b.get(i + 1) == Some(&b'/') {
            while i < b.len() && b[i] != b'\n' {
                i += 1;
            }
        } else if b[i] == b'/' && b.get(i + 1) == Some(&b'*') {
            level += 1;
            i += 2;
        } else if level > 0 && b[i] == b'*' && b.get(i + 1) == Some(&b'/') {
            level -= 1;
            i += 2;
        } else {
            i += 1;
        }
    }
    level == 0
}

pub fn minimise(w: &World, f: &Finding, p: &mut Prng) -> (World, Finding) {
    let class = f.class.clone();
    if w.concurrent.is_some() {
        // an interleaving-dependent finding needs its partners: first see whether it also shows
        // without concurrency (then the ordinary minimisation applies); otherwise keep the world
        // and only drop parties and process parties that are not needed
        let seq = World { concurrent: None, ..w.clone() };
        let rs = run_world(&seq);
        if let Some(f2) = judge(&seq, &rs).0.into_iter().find(|x| same_class(x, &class)) {
            return minimise(&seq, &f2, p);
        }
        let mut best = w.clone();
        let mut bf = f.clone();
        let mut i = 0;
        let mut budget = 12;
        while i < best.parties.len() && best.parties.len() > 2 && budget > 0 {
            budget -= 1;
            let mut cand = best.clone();
            cand.parties.remove(i);
            let r = run_world(&cand);
            if let Some(f2) = judge(&cand, &r).0.into_iter().find(|x| same_class(x, &class)) {
                best = cand;
                bf = f2;
            } else {
                i += 1;
            }
        }
        bf.what = format!("{} [parties compiled CONCURRENTLY in one process, schedule seed {}]", bf.what, best.concurrent.unwrap_or(0));
        return (best, bf);
    }
    // 1. look for a pair of fresh single-step parties that disagree
    let probes = probe_parties(p, 24, &f.fn_name, f.opts);
    let mut best_world = w.clone();
    let mut best_finding = f.clone();
    let pw = World { program: w.program.clone(), parties: probes.clone(), concurrent: None };
    let pr = run_world(&pw);
    let (fs, _) = judge(&pw, &pr);
    let simple = fs.into_iter().find(|x| same_class(x, &class));
    let fixed_probes: Vec<PartySpec>;
    let mut budget = 400;
    if let Some(sf) = simple {
        fixed_probes = probes;
        best_world = World {
            program: w.program.clone(),
            parties: vec![fixed_probes[sf.a.0].clone(), fixed_probes[sf.b.0].clone()],
            concurrent: None,
        };
        best_finding = sf;
    } else {
        // keep the original histories (process parties, warm steps) but only the two disagreeing parties
        let two = World { program: w.program.clone(), parties: vec![w.parties[f.a.0].clone(), w.parties[f.b.0].clone()], concurrent: None };
        let r = run_world(&two);
        match judge(&two, &r).0.into_iter().find(|x| same_class(x, &class)) {
            Some(tf) => {
                fixed_probes = two.parties.clone();
                best_world = two;
                best_finding = tf;
                budget = 60;
            }
            None => return (best_world, best_finding),
        }
    }
    // 2. ddmin over lines; predicate: some pair among the fixed probes still disagrees in the same class
    let test = |src: &str, consts: &[ConstSpec]| -> Option<(World, Finding)> {
        // never hand the front end an unterminated block comment: on this tree the scanner loops
        // forever on one (DESIGN.md 8; C07's business), and a minimiser must not hang the check
        if !comments_balanced(src) {
            return None;
        }
        let cand = World {
            program: ProgSpec { name: w.program.name.clone(), src: src.to_string(), consts: consts.to_vec() },
            parties: fixed_probes.clone(),
            concurrent: None,
        };
        let r = run_world(&cand);
        let f2 = judge(&cand, &r).0.into_iter().find(|x| same_class(x, &class))?;
        let two = World { program: cand.program.clone(), parties: vec![cand.parties[f2.a.0].clone(), cand.parties[f2.b.0].clone()], concurrent: None };
        let r2 = run_world(&two);
        let f3 = judge(&two, &r2).0.into_iter().find(|x| same_class(x, &class))?;
        Some((two, f3))
    };
    let mut lines: Vec<String> = w.program.src.lines().map(|s| s.to_string()).collect();
    let consts = w.program.consts.clone();
    let mut chunk = (lines.len() / 2).max(1);
    while chunk >= 1 && budget > 0 {
        let mut i = 0;
        let mut progressed = false;
        while i < lines.len() && budget > 0 {
            let end = (i + chunk).min(lines.len());
            let mut cand: Vec<String> = lines[..i].to_vec();
            cand.extend_from_slice(&lines[end..]);
            budget -= 1;
            let src = cand.join("\n") + "\n";
            if let Some((ww, ff)) = test(&src, &consts) {
                lines = cand;
                best_world = ww;
                best_finding = ff;
                progressed = true;
            } else {
                i = end;
            }
        }
        if chunk == 1 && !progressed {
            break;
        }
        if !progressed || chunk > 1 {
            chunk = if chunk > 1 { chunk / 2 } else { 1 };
        }
    }
    // 3. drop unused constants
    let mut cs = best_world.program.consts.clone();
    let mut k = 0;
    while k < cs.len() {
        let mut cand = cs.clone();
        cand.remove(k);
        if let Some((ww, ff)) = test(&best_world.program.src, &cand) {
            cs = cand;
            best_world = ww;
            best_finding = ff;
        } else {
            k += 1;
        }
    }
    (best_world, best_finding)
}

pub fn replay_json(w: &World, f: &Finding, seed: u64, idx: Option<u64>) -> serde_json::Value {
    serde_json::json!({
        "property": "C06",
        "class": f.class,
        "signature": f.signature,
        "verif_seed": seed,
        "case": idx,
        "world": w,
        "observed": { "what": f.what, "a": describe(&f.oa), "b": describe(&f.ob),
                       "fn": f.fn_name, "opts": f.opts.name() },
    })
}

// ------------------------------------------------------------------------------------------
// one case
// ------------------------------------------------------------------------------------------

pub fn run_case(plan: &Plan, seed: u64, idx: u64) -> CaseResult {
    crate::seams::reset_world();
    let (mut w, family, mut p) = make_world(plan, seed, idx);
    let _ = take_discovered_env();
    let mut r = run_world(&w);
    // environment discovery: if any party asked for an environment variable, add a process party
    // (same keys as the cold process party) in whose environment those variables read differently
    let asked = take_discovered_env();
    let mut env_parties = 0u64;
    if !asked.is_empty() {
        if let Some(cold) = w.parties.iter().find(|q| q.process && q.alloc_limit.is_none() && q.steps.len() == 1).cloned() {
            let mut flips: Vec<Vec<String>> = vec![asked.clone()];
            // host files that exist: also a twin in which they are there but say something else
            // (every number in them replaced by 1: "the same file on a much smaller machine")
            if asked.iter().any(|n| n.starts_with("file:")) {
                flips.push(asked.iter().map(|n| n.replacen("file:", "filenum:", 1)).collect());
            }
            if asked.len() > 1 {
                flips.extend(asked.iter().map(|n| vec![n.clone()]));
            }
            for f in flips.into_iter().take(6) {
                let twin = PartySpec { env_flip: f, ..cold.clone() };
                r.push(run_process_party(&w.program, &twin));
                w.parties.push(twin);
                env_parties += 1;
            }
        }
    }
    let (findings, mut counters) = judge(&w, &r);
    *counters.entry("environment_variables_asked_for".into()).or_insert(0) += asked.len() as u64;
    *counters.entry("environment_flipped_parties".into()).or_insert(0) += env_parties;
    let mut d = Digest::new();
    d.u64(idx);
    d.str(&w.program.src);
    d.str(&serde_json::to_string(&w.parties).unwrap());
    let mut evaluations = 0u64;
    let mut any_ok = false;
    let mut ok_groups: BTreeSet<u64> = BTreeSet::new();
    // reach: (fn, opts, mode, call index, site) -> (max keys, distinct raw orders seen across parties)
    #[allow(clippy::type_complexity)]
    let mut reach: BTreeMap<(String, String, String, usize, String), (usize, BTreeSet<u64>)> = BTreeMap::new();
    for (party, pr) in w.parties.iter().zip(r.iter()) {
        match pr {
            Ok(outs) => {
                for (s, (o, probes)) in party.steps.iter().zip(outs) {
                    evaluations += 1;
                    for (ci, pr) in probes.iter().enumerate() {
                        let e = reach
                            .entry((s.fn_name.clone(), s.opts.name(), format!("{:?}", s.mode), ci, pr.site.clone()))
                            .or_insert_with(|| (0usize, BTreeSet::new()));
                        e.0 = e.0.max(pr.keys);
                        e.1.insert(pr.fp);
                    }
                    d.str(&o.key());
                    if let Outcome::Err { detail, .. } = o {
                        d.str(detail);
                    }
                    if let Outcome::Panic { msg } = o {
                        d.str(msg);
                    }
                    if matches!(o, Outcome::Ok { .. }) {
                        any_ok = true;
                        let mut h = Digest::new();
                        h.str(&w.program.src);
                        h.str(&s.fn_name);
                        h.str(&s.opts.name());
                        ok_groups.insert(h.finish().0);
                    }
                }
            }
            Err(e) => d.str(e),
        }
    }
    let log = crate::seams::take_log();
    crate::seams::digest_log(&log, &mut d);
    // reach counters; a (fn, opts) triple is "order-exercised" if some site position had >= 2 keys
    // and was seen in >= 2 distinct raw orders
    let mut exercised: BTreeSet<(String, String)> = BTreeSet::new();
    for ((f, o, _m, _ci, site), (keys, orders)) in &reach {
        *counters.entry(format!("site_{site}_positions")).or_insert(0) += 1;
        if *keys >= 2 {
            *counters.entry(format!("site_{site}_positions_ge2keys")).or_insert(0) += 1;
            if orders.len() >= 2 {
                *counters.entry(format!("site_{site}_positions_ge2keys_ge2orders")).or_insert(0) += 1;
                exercised.insert((f.clone(), o.clone()));
            }
        }
        d.usize(*keys);
        d.usize(orders.len());
    }
    let mut exercised_ok: BTreeSet<u64> = BTreeSet::new();
    for (f, o) in &exercised {
        let mut h = Digest::new();
        h.str(&w.program.src);
        h.str(f);
        h.str(o);
        let k = h.finish().0;
        if ok_groups.contains(&k) {
            exercised_ok.insert(k);
        }
    }
    *counters.entry("triples_compiled_ok".into()).or_insert(0) += ok_groups.len() as u64;
    *counters.entry(format!("programs_{family}")).or_insert(0) += 1;
    *counters.entry("parties".into()).or_insert(0) += w.parties.len() as u64;
    *counters.entry("concurrent_scheduling_points".into()).or_insert(0) += SCHED_POINTS.swap(0, std::sync::atomic::Ordering::Relaxed);
    *counters.entry("clock_reads_by_thread_parties".into()).or_insert(0) +=
        crate::seams::CLOCK_READS_IN_PARTIES.swap(0, std::sync::atomic::Ordering::Relaxed);
    *counters.entry("keys_handed_by_seam".into()).or_insert(0) += log.iter().filter(|e| e.sys == b'g').count() as u64;
    if any_ok {
        *counters.entry("programs_with_ok_compilation".into()).or_insert(0) += 1;
    }
    let mut violations = vec![];
    // one violation per distinct signature in this case
    let mut seen = BTreeSet::new();
    for f in &findings {
        if !seen.insert(f.signature.clone()) {
            continue;
        }
        let (mw, mf) = minimise(&w, f, &mut p);
        violations.push(Violation {
            property: "C06".into(),
            class: mf.class.clone(),
            signature: mf.signature.clone(),
            what: mf.what.clone(),
            replay: replay_json(&mw, &mf, seed, Some(idx)),
        });
    }
    d.usize(findings.len());
    d.u64(p.draws);
    let sample = serde_json::json!({
        "case": idx, "family": family, "program": w.program.name,
        "source_head": w.program.src.lines().take(6).collect::<Vec<_>>().join("\n"),
        "consts": w.program.consts,
        "party0": w.parties.first(),
        "outcome_party0": r.first().and_then(|x| x.as_ref().ok()).map(|v| v.iter().map(|o| o.0.key()).collect::<Vec<_>>()),
    });
    CaseResult {
        idx,
        family,
        digest: d.hex(),
        evaluations,
        nontrivial: exercised_ok.into_iter().collect(),
        sets: BTreeMap::new(),
        counters,
        violations,
        sample: Some(sample),
    }
}

/// Replay a stored world; returns the findings it reproduces.
pub fn replay(v: &serde_json::Value) -> Result<Vec<Finding>, String> {
    let w: World = serde_json::from_value(v["world"].clone()).map_err(|e| format!("bad replay file: {e}"))?;
    crate::seams::reset_world();
    let r = run_world(&w);
    Ok(judge(&w, &r).0)
}

// ------------------------------------------------------------------------------------------
// fidelity: thread-with-seam-keys == fresh OS process whose main thread has those keys
// ------------------------------------------------------------------------------------------

/// Child side: the *main thread* of a fresh process takes the keys (first RandomState in the
/// process) and runs the party's steps directly.
pub fn fidelity_child() -> i32 {
    use std::io::Read;
    let mut t = String::new();
    if std::io::stdin().read_to_string(&mut t).is_err() {
        return 2;
    }
    let Ok(w) = serde_json::from_str::<World>(&t) else { return 2 };
    let Some(party) = w.parties.first() else { return 2 };
    crate::seams::reset_world();
    crate::seams::push_keys(party.keys.k0, party.keys.k1);
    for _ in 0..party.keys.drift.max(1) {
        let m: std::collections::HashMap<u8, u8> = std::collections::HashMap::new();
        std::hint::black_box(&m);
    }
    if crate::seams::world().keys_handed != 1 {
        println!("KEYS-NOT-TAKEN");
        return 2;
    }
    if let Some(k) = party.cpus {
        crate::seams::CPU_OVERRIDE.store(k as usize, std::sync::atomic::Ordering::SeqCst);
    }
    if let Some(lim) = party.alloc_limit {
        crate::ALLOC_LIMIT.store(lim, std::sync::atomic::Ordering::SeqCst);
    }
    // a process party has its own idea of the time too (a warm party: later than its cold twin)
    let warmed = party.steps.iter().any(|s| s.mode == Mode::Warm) as u64;
    // the steps run on a thread with a large stack (deeply nested programs), bound to the same keys
    // the main thread just took; clock and environment belong to that thread
    let prog = w.program.clone();
    let party2 = party.clone();
    let outs = std::thread::Builder::new()
        .stack_size(1 << 30)
        .spawn(move || {
            crate::seams::set_thread_keys(party2.keys.k0, party2.keys.k1);
            for _ in 0..party2.keys.drift.max(1) {
                let m: std::collections::HashMap<u8, u8> = std::collections::HashMap::new();
                std::hint::black_box(&m);
            }
            crate::seams::enter_party_clock(party_time_ns(&party2.keys) + warmed * 3_600_000_000_000, party_clock_step_ns(&party2.keys));
            crate::seams::enter_party_env(party2.env_flip.clone());
            let outs = run_steps(&prog, &party2.steps);
            crate::seams::leave_party_env();
            crate::seams::leave_party_clock();
            outs
        })
        .ok()
        .and_then(|h| h.join().ok())
        .unwrap_or_default();
    crate::ALLOC_LIMIT.store(0, std::sync::atomic::Ordering::SeqCst);
    println!("{}", serde_json::to_string(&outs).unwrap());
    println!("ENVQ {}", serde_json::to_string(&crate::seams::take_env_queries()).unwrap());
    0
}

/// What must agree: outcomes AND the raw hash-iteration orders (probe fingerprints), which depend
/// on the keys even when the circuit does not — so the comparison has teeth on a correct tree.
fn fidelity_view(outs: &[(Outcome, Vec<ProbeRec>)]) -> Vec<String> {
    outs.iter()
        .map(|(o, ps)| format!("{}|{}", o.key(), ps.iter().map(|p| format!("{}:{}:{:x}", p.site, p.keys, p.fp)).collect::<Vec<_>>().join(",")))
        .collect()
}

/// Parent side: for `n` sampled cases compare party 0 run in-thread against a fresh process.
pub fn fidelity(plan: &Plan, seed: u64, n: u64) -> Result<(u64, u64), String> {
    use std::io::Write;
    let total = plan.n_cases();
    let stride = (total / n.max(1)).max(1);
    let mut checked = 0;
    let mut skipped = 0;
    let exe = std::env::current_exe().map_err(|e| e.to_string())?;
    for idx in (0..total).step_by(stride as usize).take(n as usize) {
        crate::seams::reset_world();
        let (w, _, _) = make_world(plan, seed, idx);
        let single = World { program: w.program.clone(), parties: vec![w.parties[0].clone()], concurrent: None };
        let r = run_world(&single);
        let Some(Ok(outs)) = r.first() else {
            skipped += 1;
            continue;
        };
        let want: Vec<String> = fidelity_view(outs);
        let mut child = child_command(&exe)
            .arg("c06-child")
            .env("RUST_BACKTRACE", "0")
            .stdin(std::process::Stdio::piped())
            .stdout(std::process::Stdio::piped())
            .stderr(std::process::Stdio::null())
            .spawn()
            .map_err(|e| e.to_string())?;
        child.stdin.take().unwrap().write_all(serde_json::to_string(&single).unwrap().as_bytes()).map_err(|e| e.to_string())?;
        let out = child.wait_with_output().map_err(|e| e.to_string())?;
        if !out.status.success() {
            // e.g. main-thread stack overflow on a deep program: not comparable
            skipped += 1;
            continue;
        }
        let got_full: Vec<(Outcome, Vec<ProbeRec>)> =
            serde_json::from_slice(out.stdout.split(|b| *b == b'\n').next().unwrap_or(b"[]")).map_err(|e| format!("fidelity child output: {e}"))?;
        let got = fidelity_view(&got_full);
        if got != want {
            return Err(format!(
                "thread-as-process abstraction broken for case {idx}: in-thread party gave {want:?}, fresh process with the same keys gave {got:?}"
            ));
        }
        checked += 1;
    }
    Ok((checked, skipped))
}
