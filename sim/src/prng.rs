//! The only source of choices in the simulator: SplitMix64 seeding a xoshiro256**.
//! Nothing here reads a clock, an address or the OS; one integer decides everything.

#[derive(Clone, Debug)]
pub struct Prng {
    s: [u64; 4],
    /// number of 64-bit draws so far (part of the event log digest, so a logging path that drew
    /// from the PRNG by accident would show up as a divergence)
    pub draws: u64,
}

pub fn splitmix(x: &mut u64) -> u64 {
    *x = x.wrapping_add(0x9E37_79B9_7F4A_7C15);
    let mut z = *x;
    z = (z ^ (z >> 30)).wrapping_mul(0xBF58_476D_1CE4_E5B9);
    z = (z ^ (z >> 27)).wrapping_mul(0x94D0_49BB_1331_11EB);
    z ^ (z >> 31)
}

/// Stable 64-bit mix of a list of integers (used to derive per-case seeds).
pub fn mix(parts: &[u64]) -> u64 {
    let mut h = 0x243F_6A88_85A3_08D3u64;
    for &p in parts {
        let mut x = h ^ p;
        h = splitmix(&mut x) ^ h.rotate_left(23);
    }
    let mut x = h;
    splitmix(&mut x)
}

pub fn tag(s: &str) -> u64 {
    let mut h = 0xcbf2_9ce4_8422_2325u64;
    for b in s.bytes() {
        h ^= b as u64;
        h = h.wrapping_mul(0x0000_0100_0000_01B3);
    }
    h
}

impl Prng {
    pub fn new(seed: u64) -> Self {
        let mut x = seed;
        let s = [
            splitmix(&mut x),
            splitmix(&mut x),
            splitmix(&mut x),
            splitmix(&mut x),
        ];
        Prng { s, draws: 0 }
    }

    /// Per-case PRNG: a pure function of (VERIF_SEED, property/family tag, case index).
    pub fn for_case(seed: u64, family: &str, case: u64) -> Self {
        Prng::new(mix(&[seed, tag(family), case]))
    }

    pub fn next_u64(&mut self) -> u64 {
        self.draws += 1;
        let result = self.s[1].wrapping_mul(5).rotate_left(7).wrapping_mul(9);
        let t = self.s[1] << 17;
        self.s[2] ^= self.s[0];
        self.s[3] ^= self.s[1];
        self.s[1] ^= self.s[2];
        self.s[0] ^= self.s[3];
        self.s[2] ^= t;
        self.s[3] = self.s[3].rotate_left(45);
        result
    }

    /// Uniform in 0..n (n > 0).
    pub fn below(&mut self, n: u64) -> u64 {
        debug_assert!(n > 0);
        // multiply-shift; bias is irrelevant for a search heuristic and it keeps one draw per choice
        ((self.next_u64() as u128 * n as u128) >> 64) as u64
    }

    pub fn range(&mut self, lo: u64, hi_incl: u64) -> u64 {
        lo + self.below(hi_incl - lo + 1)
    }

    pub fn usize_below(&mut self, n: usize) -> usize {
        self.below(n as u64) as usize
    }

    pub fn chance(&mut self, num: u64, den: u64) -> bool {
        self.below(den) < num
    }

    pub fn pick<'a, T>(&mut self, xs: &'a [T]) -> &'a T {
        &xs[self.usize_below(xs.len())]
    }

    pub fn shuffle<T>(&mut self, xs: &mut [T]) {
        for i in (1..xs.len()).rev() {
            let j = self.usize_below(i + 1);
            xs.swap(i, j);
        }
    }

    pub fn fork(&mut self) -> Prng {
        Prng::new(self.next_u64())
    }
}

/// 128-bit digest (two independent FNV/xorshift style lanes) — only used to compare and
/// fingerprint things inside one run of the simulator; never fed by a HashMap.
#[derive(Clone, Debug)]
pub struct Digest {
    a: u64,
    b: u64,
    pub len: u64,
}

impl Default for Digest {
    fn default() -> Self {
        Self::new()
    }
}

impl Digest {
    pub fn new() -> Self {
        Digest {
            a: 0xcbf2_9ce4_8422_2325,
            b: 0x6c62_272e_07bb_0142,
            len: 0,
        }
    }
    pub fn u64(&mut self, x: u64) {
        self.len += 1;
        self.a = (self.a ^ x).wrapping_mul(0x0000_0100_0000_01B3).rotate_left(29);
        let mut y = self.b ^ x.rotate_left(17) ^ self.len;
        self.b = splitmix(&mut y);
    }
    pub fn usize(&mut self, x: usize) {
        self.u64(x as u64)
    }
    pub fn bytes(&mut self, bs: &[u8]) {
        self.u64(bs.len() as u64);
        for ch in bs.chunks(8) {
            let mut w = [0u8; 8];
            w[..ch.len()].copy_from_slice(ch);
            self.u64(u64::from_le_bytes(w));
        }
    }
    pub fn str(&mut self, s: &str) {
        self.bytes(s.as_bytes())
    }
    pub fn finish(&self) -> (u64, u64) {
        (self.a, self.b)
    }
    pub fn hex(&self) -> String {
        format!("{:016x}{:016x}", self.a, self.b)
    }
}

pub fn digest_bytes(bs: &[u8]) -> String {
    let mut d = Digest::new();
    d.bytes(bs);
    d.hex()
}
