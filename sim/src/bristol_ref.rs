//! Independent Bristol-fashion reader, well-formedness checker and evaluator, written from the
//! format description (https://nigelsmart.github.io/MPC-Circuits/) and the property statement —
//! it shares no code with src/convert.rs.

#[derive(Clone, Debug, PartialEq, Eq)]
pub enum Kind {
    Xor,
    And,
    Inv,
}

#[derive(Clone, Debug)]
pub struct BGate {
    pub ins: Vec<usize>,
    pub out: usize,
    pub kind: Kind,
}

#[derive(Clone, Debug)]
pub struct Bristol {
    pub ngates: usize,
    pub nwires: usize,
    pub inputs: Vec<usize>,
    pub outputs: Vec<usize>,
    pub gates: Vec<BGate>,
}

fn nums(line: &str) -> Result<Vec<usize>, String> {
    line.split_whitespace()
        .map(|t| t.parse::<usize>().map_err(|e| format!("bad number {t:?}: {e}")))
        .collect()
}

/// Strict parse: exactly the layout the format prescribes.
pub fn parse(text: &str) -> Result<Bristol, String> {
    let mut lines = text.lines();
    let h = nums(lines.next().ok_or("missing header line")?)?;
    if h.len() != 2 {
        return Err(format!("header has {} fields", h.len()));
    }
    let i = nums(lines.next().ok_or("missing input line")?)?;
    if i.is_empty() || i.len() != i[0] + 1 {
        return Err("input line: count does not match".into());
    }
    let o = nums(lines.next().ok_or("missing output line")?)?;
    if o.is_empty() || o.len() != o[0] + 1 {
        return Err("output line: count does not match".into());
    }
    let mut gates = vec![];
    for l in lines {
        let toks: Vec<&str> = l.split_whitespace().collect();
        if toks.is_empty() {
            continue;
        }
        if toks.len() < 5 {
            return Err(format!("short gate line {l:?}"));
        }
        let nin: usize = toks[0].parse().map_err(|_| format!("bad gate line {l:?}"))?;
        let nout: usize = toks[1].parse().map_err(|_| format!("bad gate line {l:?}"))?;
        if nout != 1 || toks.len() != nin + 4 {
            return Err(format!("gate line arity {l:?}"));
        }
        let mut ins = vec![];
        for t in &toks[2..2 + nin] {
            ins.push(t.parse::<usize>().map_err(|_| format!("bad wire in {l:?}"))?);
        }
        let out: usize = toks[2 + nin].parse().map_err(|_| format!("bad wire in {l:?}"))?;
        let kind = match (toks[3 + nin], nin) {
            ("XOR", 2) => Kind::Xor,
            ("AND", 2) => Kind::And,
            ("INV", 1) => Kind::Inv,
            (k, n) => return Err(format!("gate {k} with {n} inputs")),
        };
        gates.push(BGate { ins, out, kind });
    }
    Ok(Bristol { ngates: h[0], nwires: h[1], inputs: i[1..].to_vec(), outputs: o[1..].to_vec(), gates })
}

/// The well-formedness clauses of the property statement.
pub fn well_formed(b: &Bristol, expect_inputs: &[usize], expect_output_bits: usize) -> Result<(), String> {
    if b.ngates != b.gates.len() {
        return Err(format!("declared {} gates, file has {}", b.ngates, b.gates.len()));
    }
    let nin: usize = b.inputs.iter().sum();
    if b.nwires != nin + b.gates.len() {
        return Err(format!("declared {} wires, inputs + gates = {}", b.nwires, nin + b.gates.len()));
    }
    if b.inputs != expect_inputs {
        return Err(format!("input line {:?} but the circuit's parties are {:?}", b.inputs, expect_inputs));
    }
    if b.outputs.len() != 1 || b.outputs[0] != expect_output_bits {
        return Err(format!("output line {:?}, expected one value of {} bits", b.outputs, expect_output_bits));
    }
    let mut defined = vec![false; b.nwires];
    for d in defined.iter_mut().take(nin) {
        *d = true;
    }
    for (k, g) in b.gates.iter().enumerate() {
        for &w in &g.ins {
            if w >= b.nwires {
                return Err(format!("gate {k} reads wire {w} >= {}", b.nwires));
            }
            if !defined[w] {
                return Err(format!("gate {k} reads wire {w} before it is assigned"));
            }
        }
        if g.out >= b.nwires {
            return Err(format!("gate {k} writes wire {} >= {}", g.out, b.nwires));
        }
        if g.out < nin {
            return Err(format!("gate {k} overwrites input wire {}", g.out));
        }
        if defined[g.out] {
            return Err(format!("wire {} assigned twice (gate {k})", g.out));
        }
        defined[g.out] = true;
    }
    if let Some(w) = defined.iter().position(|d| !d) {
        return Err(format!("wire {w} is never assigned"));
    }
    let nout: usize = b.outputs.iter().sum();
    if nout > b.nwires - nin {
        return Err("more output bits than non-input wires (an output would be an input wire)".into());
    }
    Ok(())
}

/// Evaluate; outputs are the last wires, in order. None if the file reads an unassigned wire.
pub fn eval(b: &Bristol, inputs: &[Vec<bool>]) -> Option<Vec<bool>> {
    let mut w: Vec<Option<bool>> = vec![None; b.nwires];
    let mut k = 0;
    for p in inputs {
        for &bit in p {
            if k < w.len() {
                w[k] = Some(bit);
            }
            k += 1;
        }
    }
    for g in &b.gates {
        let v = match g.kind {
            Kind::Xor => (*w.get(g.ins[0])?)? ^ (*w.get(g.ins[1])?)?,
            Kind::And => (*w.get(g.ins[0])?)? & (*w.get(g.ins[1])?)?,
            Kind::Inv => !(*w.get(g.ins[0])?)?,
        };
        *w.get_mut(g.out)? = Some(v);
    }
    let nout: usize = b.outputs.iter().sum();
    if nout > b.nwires {
        return None;
    }
    w[b.nwires - nout..].iter().copied().collect()
}
