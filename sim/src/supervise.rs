//! Parent/worker process pool. Every case runs in a worker process; the worker writes
//! `BEGIN <idx>` before and `END <idx> <json>` after each case, so that an abort, a stack overflow
//! or an OOM kill is attributed to exactly one case. Results are merged in case order, so they do
//! not depend on the number of workers. Wall-clock never decides a property: a silent worker is a
//! harness error (exit 2), not a violation.

use serde::{Deserialize, Serialize};
use std::collections::{BTreeMap, BTreeSet};
use std::io::{BufRead, BufReader, Write};
use std::process::{Command, Stdio};
use std::sync::mpsc;
use std::time::{Duration, Instant};

#[derive(Clone, Debug, Serialize, Deserialize, Default)]
pub struct Violation {
    pub property: String,
    /// violation class, e.g. "circuits_differ", "import_panicked"
    pub class: String,
    /// stable signature used for known-findings matching: class + site
    pub signature: String,
    pub what: String,
    /// complete replay description (self-contained; never needs VERIF_SEED)
    pub replay: serde_json::Value,
}

#[derive(Clone, Debug, Serialize, Deserialize, Default)]
pub struct CaseResult {
    pub idx: u64,
    pub family: String,
    /// digest over every PRNG-derived decision, every intercepted syscall and every observed outcome
    pub digest: String,
    /// number of executions (compilations / exports / imports / evals) inside this case
    pub evaluations: u64,
    /// hashes of the distinct non-trivial sub-cases in this case (unioned by the parent)
    pub nontrivial: Vec<u64>,
    /// further distinct-counting sets by name (e.g. "disk_images", "interleavings")
    #[serde(default)]
    pub sets: BTreeMap<String, Vec<u64>>,
    pub counters: BTreeMap<String, u64>,
    pub violations: Vec<Violation>,
    pub sample: Option<serde_json::Value>,
}

#[derive(Clone, Debug)]
pub struct Crash {
    pub idx: u64,
    pub status: String,
    pub stderr_tail: String,
    /// with `trace`: the last world the worker announced before it died
    pub last_world: Option<String>,
}

pub struct PoolResult {
    pub results: BTreeMap<u64, CaseResult>,
    pub crashes: Vec<Crash>,
    pub wall: Duration,
}

pub struct PoolSpec {
    pub property: String,
    pub tier: String,
    pub seed: u64,
    pub from: u64,
    pub to: u64,
    pub workers: usize,
    /// worker runs every case twice in-process and fails if digests differ
    pub twice: bool,
    /// workers announce every world (`WORLD <json>`) before running it, so that a death inside a
    /// multi-world case (sweep) can be attributed to one world
    pub trace: bool,
}

enum Msg {
    World(usize, String),
    Begin(usize, u64),
    End(usize, Box<CaseResult>),
    Nondet(usize, u64, String),
    Eof(usize),
}

const SILENCE_LIMIT: Duration = Duration::from_secs(600);

pub fn worker_count() -> usize {
    std::env::var("VERIF_WORKERS")
        .ok()
        .and_then(|s| s.parse().ok())
        .unwrap_or_else(|| std::thread::available_parallelism().map(|n| n.get()).unwrap_or(8).min(16))
}

struct Slot {
    child: std::process::Child,
    current: Option<u64>,
    next_from: u64,
    done: bool,
    last_msg: Instant,
    last_world: Option<String>,
    stderr: std::sync::Arc<std::sync::Mutex<Vec<u8>>>,
}

fn spawn(spec: &PoolSpec, shard: usize, start_from: u64, tx: mpsc::Sender<Msg>) -> Result<Slot, String> {
    let exe = std::env::current_exe().map_err(|e| e.to_string())?;
    let mut cmd = Command::new(exe);
    cmd.arg("worker")
        .arg(&spec.property)
        .arg(&spec.tier)
        .arg(spec.seed.to_string())
        .arg(shard.to_string())
        .arg(spec.workers.to_string())
        .arg(start_from.to_string())
        .arg(spec.to.to_string())
        .arg(if spec.twice { "twice" } else { "once" })
        .env("RUST_BACKTRACE", "0")
        .env("VERIF_TRACE_WORLDS", if spec.trace { "1" } else { "0" })
        .stdin(Stdio::null())
        .stdout(Stdio::piped())
        .stderr(Stdio::piped());
    let mut child = cmd.spawn().map_err(|e| format!("spawn worker: {e}"))?;
    let out = child.stdout.take().unwrap();
    let err = child.stderr.take().unwrap();
    let stderr = std::sync::Arc::new(std::sync::Mutex::new(Vec::new()));
    let se = stderr.clone();
    std::thread::spawn(move || {
        let mut r = BufReader::new(err);
        let mut line = Vec::new();
        loop {
            line.clear();
            match r.read_until(b'\n', &mut line) {
                Ok(0) | Err(_) => break,
                Ok(_) => {
                    let mut g = se.lock().unwrap();
                    g.extend_from_slice(&line);
                    let len = g.len();
                    if len > 8192 {
                        g.drain(..len - 8192);
                    }
                }
            }
        }
    });
    std::thread::spawn(move || {
        let r = BufReader::new(out);
        for line in r.lines() {
            let Ok(line) = line else { break };
            if let Some(rest) = line.strip_prefix("BEGIN ") {
                if let Ok(i) = rest.trim().parse() {
                    let _ = tx.send(Msg::Begin(shard, i));
                }
            } else if let Some(rest) = line.strip_prefix("END ") {
                if let Ok(r) = serde_json::from_str::<CaseResult>(rest) {
                    let _ = tx.send(Msg::End(shard, Box::new(r)));
                }
            } else if let Some(rest) = line.strip_prefix("WORLD ") {
                let _ = tx.send(Msg::World(shard, rest.to_string()));
            } else if let Some(rest) = line.strip_prefix("NONDET ") {
                let mut it = rest.splitn(2, ' ');
                let i = it.next().and_then(|s| s.parse().ok()).unwrap_or(0);
                let _ = tx.send(Msg::Nondet(shard, i, it.next().unwrap_or("").to_string()));
            }
        }
        let _ = tx.send(Msg::Eof(shard));
    });
    Ok(Slot { child, current: None, next_from: start_from, done: false, last_msg: Instant::now(), last_world: None, stderr })
}

/// Run cases `from..to` of `property` across worker processes.
/// Err = harness error (exit 2).
pub fn run_pool(spec: &PoolSpec) -> Result<PoolResult, String> {
    let t0 = Instant::now();
    let (tx, rx) = mpsc::channel::<Msg>();
    let mut slots: Vec<Slot> = vec![];
    for shard in 0..spec.workers {
        slots.push(spawn(spec, shard, spec.from, tx.clone())?);
    }
    let mut results = BTreeMap::new();
    let mut crashes = vec![];
    let mut live = spec.workers;
    while live > 0 {
        match rx.recv_timeout(Duration::from_secs(5)) {
            Ok(Msg::World(s, w)) => {
                slots[s].last_world = Some(w);
                slots[s].last_msg = Instant::now();
            }
            Ok(Msg::Begin(s, i)) => {
                slots[s].last_world = None;
                slots[s].current = Some(i);
                slots[s].last_msg = Instant::now();
            }
            Ok(Msg::End(s, r)) => {
                slots[s].current = None;
                slots[s].next_from = r.idx + 1;
                slots[s].last_msg = Instant::now();
                results.insert(r.idx, *r);
            }
            Ok(Msg::Nondet(_, i, what)) => {
                for s in slots.iter_mut() {
                    let _ = s.child.kill();
                    let _ = s.child.wait();
                }
                return Err(format!("nondeterminism detected: case {i} gave two different event-log digests in one process: {what}"));
            }
            Ok(Msg::Eof(s)) => {
                let status = slots[s].child.wait().map_err(|e| e.to_string())?;
                if let Some(i) = slots[s].current.take() {
                    // died inside case i: attribute, then continue the shard after it
                    let tail = String::from_utf8_lossy(&slots[s].stderr.lock().unwrap()).to_string();
                    let last_world = slots[s].last_world.take();
                    crashes.push(Crash { idx: i, status: format!("{status}"), stderr_tail: tail, last_world });
                    let nf = i + 1;
                    slots[s] = spawn(spec, s, nf, tx.clone())?;
                } else if !status.success() {
                    let tail = String::from_utf8_lossy(&slots[s].stderr.lock().unwrap()).to_string();
                    return Err(format!("worker {s} failed outside any case: {status}\n{tail}"));
                } else {
                    slots[s].done = true;
                    live -= 1;
                }
            }
            Err(mpsc::RecvTimeoutError::Timeout) => {
                for (s, slot) in slots.iter_mut().enumerate() {
                    if !slot.done && slot.last_msg.elapsed() > SILENCE_LIMIT {
                        let cur = slot.current;
                        for s2 in slots.iter_mut() {
                            let _ = s2.child.kill();
                            let _ = s2.child.wait();
                        }
                        return Err(format!("worker {s} silent for {SILENCE_LIMIT:?} in case {cur:?}; wall-clock is not allowed to decide a property"));
                    }
                }
            }
            Err(mpsc::RecvTimeoutError::Disconnected) => break,
        }
    }
    Ok(PoolResult { results, crashes, wall: t0.elapsed() })
}

/// Run one case in a fresh process (used to confirm crashes and for the cross-process
/// determinism comparison). Returns Ok(None) if the process died.
pub fn run_single_fresh(property: &str, tier: &str, seed: u64, idx: u64) -> Result<Option<CaseResult>, String> {
    let spec = PoolSpec { property: property.into(), tier: tier.into(), seed, from: idx, to: idx + 1, workers: 1, twice: false, trace: false };
    let r = run_pool(&spec)?;
    Ok(r.results.into_values().next())
}

// ------------------------------------------------------------------------------------------
// worker side
// ------------------------------------------------------------------------------------------

pub fn limit_address_space(bytes: u64) {
    unsafe {
        let lim = libc::rlimit { rlim_cur: bytes, rlim_max: bytes };
        libc::setrlimit(libc::RLIMIT_AS, &lim);
        // no core dumps
        let z = libc::rlimit { rlim_cur: 0, rlim_max: 0 };
        libc::setrlimit(libc::RLIMIT_CORE, &z);
    }
}

pub fn worker_main(args: &[String], run_case: &dyn Fn(&str, &str, u64, u64) -> CaseResult) {
    let property = args[0].clone();
    let tier = args[1].clone();
    let seed: u64 = args[2].parse().unwrap();
    let shard: u64 = args[3].parse().unwrap();
    let nshards: u64 = args[4].parse().unwrap();
    let from: u64 = args[5].parse().unwrap();
    let to: u64 = args[6].parse().unwrap();
    let twice = args.get(7).map(|s| s == "twice").unwrap_or(false);
    limit_address_space(8 << 30);
    let stdout = std::io::stdout();
    for idx in from..to {
        if idx % nshards != shard {
            continue;
        }
        {
            let mut o = stdout.lock();
            let _ = writeln!(o, "BEGIN {idx}");
            let _ = o.flush();
        }
        let r = run_case(&property, &tier, seed, idx);
        if twice {
            let r2 = run_case(&property, &tier, seed, idx);
            if r2.digest != r.digest {
                let mut o = stdout.lock();
                let _ = writeln!(o, "NONDET {idx} {} vs {}", r.digest, r2.digest);
                let _ = o.flush();
                std::process::exit(3);
            }
        }
        let mut o = stdout.lock();
        let _ = writeln!(o, "END {}", serde_json::to_string(&r).unwrap());
        let _ = o.flush();
    }
}

pub fn trace_worlds() -> bool {
    use std::sync::OnceLock;
    static T: OnceLock<bool> = OnceLock::new();
    *T.get_or_init(|| std::env::var("VERIF_TRACE_WORLDS").map(|v| v == "1").unwrap_or(false))
}

/// Announce a world before running it (only in trace mode).
pub fn announce_world(json: impl FnOnce() -> String) {
    if trace_worlds() {
        let line = json();
        crate::seams::harness_print(|| {
            let stdout = std::io::stdout();
            let mut o = stdout.lock();
            let _ = writeln!(o, "WORLD {line}");
            let _ = o.flush();
        });
    }
}

// ------------------------------------------------------------------------------------------
// merging
// ------------------------------------------------------------------------------------------

#[derive(Default)]
pub struct Merged {
    pub evaluations: u64,
    pub cases: u64,
    pub nontrivial: BTreeSet<u64>,
    pub sets: BTreeMap<String, BTreeSet<u64>>,
    pub counters: BTreeMap<String, u64>,
    pub violations: Vec<(u64, Violation)>,
    pub samples: Vec<serde_json::Value>,
    pub digests: BTreeMap<u64, String>,
    pub families: BTreeMap<String, u64>,
}

pub fn merge(results: &BTreeMap<u64, CaseResult>, max_samples: usize) -> Merged {
    let mut m = Merged::default();
    let n = results.len().max(1);
    let stride = (n / max_samples.max(1)).max(1);
    for (k, (idx, r)) in results.iter().enumerate() {
        m.cases += 1;
        m.evaluations += r.evaluations;
        m.nontrivial.extend(r.nontrivial.iter().copied());
        for (name, v) in &r.sets {
            m.sets.entry(name.clone()).or_default().extend(v.iter().copied());
        }
        for (c, v) in &r.counters {
            *m.counters.entry(c.clone()).or_insert(0) += v;
        }
        for v in &r.violations {
            m.violations.push((*idx, v.clone()));
        }
        if k % stride == 0 && m.samples.len() < max_samples {
            if let Some(s) = &r.sample {
                m.samples.push(s.clone());
            }
        }
        m.digests.insert(*idx, r.digest.clone());
        *m.families.entry(r.family.clone()).or_insert(0) += 1;
    }
    m
}
