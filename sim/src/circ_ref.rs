//! Executable reference for "safe to evaluate", written from the statement of C16 and sharing no
//! code with the validators in src/circuit.rs / src/register_circuit.rs. It demands nothing the
//! statement does not: every read refers to an input, wire or register that exists and has been
//! defined; every output names something that exists and has been defined.

use garble_lang::circuit::{Circuit, Gate};
use garble_lang::register_circuit as rc;

pub fn total_bits(parties: &[usize]) -> Option<usize> {
    parties.iter().try_fold(0usize, |a, &b| a.checked_add(b))
}

/// Why an SSA circuit is not safe to evaluate (None = safe).
pub type Unsafe = (&'static str, String);

pub fn unsafe_ssa(c: &Circuit) -> Option<Unsafe> {
    let nin = match total_bits(&c.input_gates) {
        Some(n) => n,
        None => return Some(("overflow", "input bit counts overflow".into())),
    };
    for (k, g) in c.gates.iter().enumerate() {
        let w = nin + k;
        let ops: &[usize] = match g {
            Gate::Xor(x, y) | Gate::And(x, y) => &[*x, *y],
            Gate::Not(x) => &[*x],
        };
        for &o in ops {
            if o >= w {
                return Some(("ssa_forward_ref", format!("gate {k} (wire {w}) reads wire {o}, which is not defined before it")));
            }
        }
    }
    let nw = nin + c.gates.len();
    for &o in &c.output_gates {
        if o >= nw {
            return Some(("ssa_output_range", format!("output names wire {o} but the circuit has {nw} wires")));
        }
    }
    None
}

/// Why a register circuit is not safe to evaluate (None = safe).
pub fn unsafe_reg(c: &rc::Circuit) -> Option<Unsafe> {
    let n = c.max_reg_count;
    let mut defined = vec![false; n];
    for (k, inst) in c.insts.iter().enumerate() {
        let rd = |r: rc::Reg, defined: &Vec<bool>| -> Option<Unsafe> {
            let i = r.0 as usize;
            if i >= n {
                return Some(("reg_read_range", format!("instruction {k} reads register {i} but only {n} registers exist")));
            }
            if !defined[i] {
                return Some(("reg_read_undefined", format!("instruction {k} reads register {i} before any instruction wrote it")));
            }
            None
        };
        match inst.op {
            rc::Op::Xor(rc::Xor(a, b)) | rc::Op::And(rc::And(a, b)) => {
                if let Some(e) = rd(a, &defined).or_else(|| rd(b, &defined)) {
                    return Some(e);
                }
            }
            rc::Op::Not(rc::Not(a)) => {
                if let Some(e) = rd(a, &defined) {
                    return Some(e);
                }
            }
            rc::Op::Input(rc::Input { party, input }) => {
                let p = party as usize;
                if p >= c.input_regs.len() {
                    return Some(("reg_input_party", format!("instruction {k} loads an input of party {p} but there are {} parties", c.input_regs.len())));
                }
                if (input as usize) >= c.input_regs[p] {
                    return Some(("reg_input_index", format!("instruction {k} loads input {input} of party {p}, which supplies {} bits", c.input_regs[p])));
                }
            }
        }
        let o = inst.out.0 as usize;
        if o >= n {
            return Some(("reg_write_range", format!("instruction {k} writes register {o} but only {n} registers exist")));
        }
        defined[o] = true;
    }
    for r in &c.output_regs {
        let i = r.0 as usize;
        if i >= n {
            return Some(("reg_output_range", format!("output names register {i} but only {n} registers exist")));
        }
        if !defined[i] {
            return Some(("reg_output_undefined", format!("output names register {i}, which no instruction ever wrote")));
        }
    }
    None
}

/// Independent evaluators (used to cross-check the bits `eval` returns on accepted circuits).
pub fn eval_ssa(c: &Circuit, inputs: &[Vec<bool>]) -> Option<Vec<bool>> {
    let mut w: Vec<bool> = inputs.iter().flatten().copied().collect();
    for g in &c.gates {
        let v = match g {
            Gate::Xor(x, y) => *w.get(*x)? ^ *w.get(*y)?,
            Gate::And(x, y) => *w.get(*x)? & *w.get(*y)?,
            Gate::Not(x) => !*w.get(*x)?,
        };
        w.push(v);
    }
    c.output_gates.iter().map(|o| w.get(*o).copied()).collect()
}

pub fn eval_reg(c: &rc::Circuit, inputs: &[Vec<bool>]) -> Option<Vec<bool>> {
    let mut r = vec![false; c.max_reg_count];
    for inst in &c.insts {
        let v = match inst.op {
            rc::Op::Xor(rc::Xor(a, b)) => *r.get(a.0 as usize)? ^ *r.get(b.0 as usize)?,
            rc::Op::And(rc::And(a, b)) => *r.get(a.0 as usize)? & *r.get(b.0 as usize)?,
            rc::Op::Not(rc::Not(a)) => !*r.get(a.0 as usize)?,
            rc::Op::Input(rc::Input { party, input }) => *inputs.get(party as usize)?.get(input as usize)?,
        };
        *r.get_mut(inst.out.0 as usize)? = v;
    }
    c.output_regs.iter().map(|o| r.get(o.0 as usize).copied()).collect()
}
