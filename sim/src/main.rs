mod prng;
mod sched;
mod seams;
mod workload;

use workload::*;

fn corpus_filter() {
    install_panic_hook();
    let dir = verif_dir().join("corpus");
    let t = std::fs::read_to_string(dir.join("candidates.json")).expect("candidates.json");
    let cands: Vec<CorpusEntry> = serde_json::from_str(&t).unwrap();
    let mut keep: Vec<CorpusEntry> = vec![];
    let mut rejected: Vec<CorpusEntry> = vec![];
    let mut p = prng::Prng::new(1);
    for c in cands {
        let a = analyse(&c.src, &mut p);
        if a.typechecks {
            // drop programs that are too expensive for a per-change check
            let specs = a.consts.clone();
            let src = c.src.clone();
            let t0 = std::time::Instant::now();
            let r = guarded(|| compile_src(&src, &a.pub_fns.first().cloned().unwrap_or("main".into()), build_consts(&specs, &[], 0), Opts { register: false, dedup: true }, false));
            let (o, _) = outcome_of(r);
            let ms = t0.elapsed().as_millis();
            eprintln!("{:40} {:?} {}ms", c.name, o.class(), ms);
            let small = match &o { Outcome::Ok { size, .. } => *size <= 60_000, _ => true };
            if small {
                keep.push(c);
            }
        } else if rejected.len() < 60 && a.note == "rejected" && c.src.contains("fn main") {
            rejected.push(c);
        }
    }
    eprintln!("kept {} accepted, {} rejected", keep.len(), rejected.len());
    std::fs::write(dir.join("extracted.json"), serde_json::to_string_pretty(&keep).unwrap()).unwrap();
    std::fs::write(dir.join("rejected.json"), serde_json::to_string_pretty(&rejected).unwrap()).unwrap();
}

fn main() {
    let args: Vec<String> = std::env::args().collect();
    match args.get(1).map(|s| s.as_str()) {
        Some("selftest") => match seams::liveness_selftest() {
            Ok(()) => println!("seams alive"),
            Err(e) => {
                eprintln!("HARNESS-ERROR: {e}");
                std::process::exit(2);
            }
        },
        Some("corpus-filter") => corpus_filter(),
        _ => {
            eprintln!("usage");
            std::process::exit(2);
        }
    }
}
