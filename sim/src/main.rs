mod prng;
mod sched;
mod seams;

fn main() {
    let args: Vec<String> = std::env::args().collect();
    match args.get(1).map(|s| s.as_str()) {
        Some("selftest") => match seams::liveness_selftest() {
            Ok(()) => println!("seams alive"),
            Err(e) => {
                eprintln!("HARNESS-ERROR: {e}");
                std::process::exit(2);
            }
        },
        _ => {
            eprintln!("usage");
            std::process::exit(2);
        }
    }
}
