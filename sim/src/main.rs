mod bristol_ref;
mod c06;
mod c11;
mod c16;
mod circ_ref;
mod driver;
mod gen;
mod prng;
mod sched;
mod seams;
mod supervise;
mod workload;

use workload::*;

/// Global allocator with an optional ceiling on the size of a single allocation: the simulator's
/// "memory pressure" fault. With the limit at 0 (always, except inside a memory-pressure process
/// party of C06) it is the system allocator. A refused allocation returns null: fallible paths
/// (`try_reserve`) see an error, infallible ones abort the (child) process, exactly as in a real
/// process whose large allocations fail.
pub struct LimitAlloc;
pub static ALLOC_LIMIT: std::sync::atomic::AtomicUsize = std::sync::atomic::AtomicUsize::new(0);
pub static ALLOC_REFUSED: std::sync::atomic::AtomicUsize = std::sync::atomic::AtomicUsize::new(0);

unsafe impl std::alloc::GlobalAlloc for LimitAlloc {
    unsafe fn alloc(&self, l: std::alloc::Layout) -> *mut u8 {
        let lim = ALLOC_LIMIT.load(std::sync::atomic::Ordering::Relaxed);
        if lim != 0 && l.size() > lim {
            ALLOC_REFUSED.fetch_add(1, std::sync::atomic::Ordering::Relaxed);
            return std::ptr::null_mut();
        }
        std::alloc::System.alloc(l)
    }
    unsafe fn alloc_zeroed(&self, l: std::alloc::Layout) -> *mut u8 {
        let lim = ALLOC_LIMIT.load(std::sync::atomic::Ordering::Relaxed);
        if lim != 0 && l.size() > lim {
            ALLOC_REFUSED.fetch_add(1, std::sync::atomic::Ordering::Relaxed);
            return std::ptr::null_mut();
        }
        std::alloc::System.alloc_zeroed(l)
    }
    unsafe fn dealloc(&self, p: *mut u8, l: std::alloc::Layout) {
        std::alloc::System.dealloc(p, l)
    }
    unsafe fn realloc(&self, p: *mut u8, l: std::alloc::Layout, new_size: usize) -> *mut u8 {
        let lim = ALLOC_LIMIT.load(std::sync::atomic::Ordering::Relaxed);
        if lim != 0 && new_size > lim {
            ALLOC_REFUSED.fetch_add(1, std::sync::atomic::Ordering::Relaxed);
            return std::ptr::null_mut();
        }
        std::alloc::System.realloc(p, l, new_size)
    }
}

#[global_allocator]
static GLOBAL: LimitAlloc = LimitAlloc;

fn corpus_filter() {
    install_panic_hook();
    let dir = verif_dir().join("corpus");
    let t = std::fs::read_to_string(dir.join("candidates.json")).expect("candidates.json");
    let cands: Vec<CorpusEntry> = serde_json::from_str(&t).unwrap();
    let mut keep: Vec<CorpusEntry> = vec![];
    let mut rejected: Vec<CorpusEntry> = vec![];
    let mut p = prng::Prng::new(1);
    for c in cands {
        let a = analyse(&c.src, &mut p);
        if a.typechecks {
            // drop programs that are too expensive for a per-change check
            let specs = a.consts.clone();
            let src = c.src.clone();
            let t0 = std::time::Instant::now();
            let r = guarded(|| compile_src(&src, &a.pub_fns.first().cloned().unwrap_or("main".into()), build_consts(&specs, &[], 0), Opts { register: false, dedup: true }, false));
            let (o, _) = outcome_of(r);
            let ms = t0.elapsed().as_millis();
            eprintln!("{:40} {:?} {}ms", c.name, o.class(), ms);
            let src2 = c.src.clone();
            let specs2 = a.consts.clone();
            let f2 = a.pub_fns.first().cloned().unwrap_or("main".into());
            let t1 = std::time::Instant::now();
            let (o2, _) = outcome_of(guarded(|| compile_src(&src2, &f2, build_consts(&specs2, &[], 0), Opts { register: true, dedup: false }, false)));
            eprintln!("   nodedup {:?} {}ms", o2, t1.elapsed().as_millis());
            let small = |o: &Outcome| match o { Outcome::Ok { size, .. } => *size <= 40_000, _ => true };
            // one-off tool: the result (corpus/extracted.json) is committed, so using time here does
            // not make any check timing-dependent
            let small = small(&o) && small(&o2) && ms < 150 && t1.elapsed().as_millis() < 150;
            if small {
                keep.push(c);
            }
        } else if rejected.len() < 60 && a.note == "rejected" && c.src.contains("fn main") {
            rejected.push(c);
        }
    }
    eprintln!("kept {} accepted, {} rejected", keep.len(), rejected.len());
    std::fs::write(dir.join("extracted.json"), serde_json::to_string_pretty(&keep).unwrap()).unwrap();
    std::fs::write(dir.join("rejected.json"), serde_json::to_string_pretty(&rejected).unwrap()).unwrap();
}

fn gen_stats(n: u64, show: bool) {
    install_panic_hook();
    let mut ok = 0;
    let mut rej = 0;
    let mut pan = 0;
    let mut errs: std::collections::BTreeMap<String, u64> = Default::default();
    let mut sizes = vec![];
    let t0 = std::time::Instant::now();
    for i in 0..n {
        let mut p = prng::Prng::for_case(1, "gen", i);
        let src = match guarded(|| gen::program(&mut p)) {
            Ok(s) => s,
            Err(m) => {
                eprintln!("GENERATOR PANIC in case {i}: {m}");
                std::process::exit(3);
            }
        };
        let a = analyse(&src, &mut p);
        if show {
            println!("// ---- {i} typechecks={} {}\n{src}", a.typechecks, a.note);
            if let Err(e) = garble_lang::check(&src) { println!("// ERR {}", e.prettify(&src).chars().take(600).collect::<String>()); }
        }
        if a.typechecks {
            let specs = a.consts.clone();
            let s2 = src.clone();
            let r = guarded(|| compile_src(&s2, "main", build_consts(&specs, &[], 0), Opts { register: false, dedup: true }, false));
            let (o, _) = outcome_of(r);
            match &o {
                Outcome::Ok { size, .. } => { ok += 1; sizes.push(*size); }
                Outcome::Err { class, .. } => { rej += 1; *errs.entry(format!("compile-err:{class}")).or_insert(0) += 1; }
                Outcome::Panic { msg } => { pan += 1; *errs.entry(format!("panic:{}", panic_site(msg))).or_insert(0) += 1; if show { println!("// PANIC {msg}"); } }
            }
        } else {
            rej += 1;
            if a.note.starts_with("front end panicked") {
                *errs.entry(a.note.clone()).or_insert(0) += 1;
                if show { println!("// FRONT END PANIC {}", a.note); }
                continue;
            }
            let r = garble_lang::check(&src);
            if let Err(e) = r {
                let m = format!("{e:?}");
                let m: String = m.chars().take(110).collect();
                *errs.entry(m).or_insert(0) += 1;
            }
        }
    }
    sizes.sort();
    eprintln!("n={n} ok={ok} rejected={rej} panicked={pan} median_gates={:?} max={:?} {:?}", sizes.get(sizes.len()/2), sizes.last(), t0.elapsed());
    for (k, v) in errs { eprintln!("{v:5} {k}"); }
}

fn seed_from_env() -> u64 {
    std::env::var("VERIF_SEED").ok().and_then(|s| s.trim().parse().ok()).unwrap_or(1)
}

fn components() -> serde_json::Value {
    serde_json::json!({
        "real": ["garble_lang (scan, parse, check, compile, circuit builder, register allocator, convert, eval, serde impls) built from /repo's working tree with the verif_hooks feature (probes and yield points only)",
                 "std::collections::HashMap/RandomState (SipHash keyed by the seam)", "std::fs::File, std::io::BufReader/BufWriter, std::env, std::time, std::thread (they reach the OS only through the interposed libc symbols)",
                 "serde_json (de)serialisation of circuits", "OS processes for process parties / child receivers (real fork+exec; everything they observe comes from the world file they are handed)"],
        "simulated": ["entropy source (getrandom): hash keys per party",
                      "file system: open/open64, read, write, close, rename, unlink, statx/fstat/stat/lstat, lseek, fsync/fdatasync, ftruncate on /SIMDISK paths (in-memory disk with modification times, fault plans, stat-size lies, capacity)",
                      "clocks (clock_gettime): party time and clock speed derived from the party's keys",
                      "environment (getenv): discovery of the variables the library asks for, flipped per party",
                      "CPU count (sched_getaffinity), thread creation (pthread_create refusal), allocator (per-process memory limit), stdout/stderr (closed or read-only descriptors)",
                      "thread interleaving: baton scheduler over real threads at library yield points and at simulated-file syscalls",
                      "process identity: one OS thread with its own hash keys / clock / environment = one simulated process (validated against fresh OS processes in the fidelity batch), plus real child processes for process-wide state"],
        "stubs": ["fd numbers are placeholders on /dev/null", "no fsync/power-loss reordering below the page cache (the exporter never syncs)", "no network: parties exchange circuits as byte strings handed over by the harness (channel faults are applied to those bytes)"]
    })
}

fn c06_def(plan: &c06::Plan) -> driver::PropertyDef {
    driver::PropertyDef {
        id: "C06",
        level: "exploration",
        rule: "cases = corpus programs (tests/docs/examples of the repository) + generated well-typed programs biased to order-sensitive shapes + ill-typed programs (1-4 errors) + big / huge programs (up to millions of gates) + deeply nested programs (4..4000 levels) + concurrent callers (2..40 threads under a baton schedule); each case runs P simulated parties (distinct SipHash keys, key-counter drift, clocks of different speed, repeated compilations, permuted constant maps, 4 option combinations, up to 2 functions) of which some are OS processes (cold, warm, veteran, memory-limited, environment-flipped, 1 or 2 usable CPUs, and in the thorough tier other cargo profiles of the same sources). evaluations = compilations executed. distinct_nontrivial = distinct (source, function, options) triples that compiled to a circuit AND during whose compilation at least one hash-map iteration site (probe from the verif_hooks feature) was walked with >= 2 keys in >= 2 distinct raw orders across parties, i.e. triples on which hash order really varied and circuits were compared",
        assumptions: vec![
            "a thread with seam-provided RandomState keys behaves like a fresh process with those keys (checked against fresh OS processes in the fidelity batch)".into(),
            "nondeterminism reaches the library only through the seams listed under components.simulated (hash keys, clocks, environment, CPU count, allocator, thread scheduling at yield points, process history, build profile); a source outside them (e.g. a raw syscall or inline rdtsc) would not be varied".into(),
            "seeded search: P random key pairs per program bound the miss probability only for order-sensitive sites the workload reaches".into(),
        ],
        components: components(),
        crash_is_violation: false,
        n_cases: plan.n_cases(),
        determinism_sample: 0,
        deferred_error: None,
    }
}

fn c11_def(plan: &c11::CasePlan) -> driver::PropertyDef {
    driver::PropertyDef {
        id: "C11",
        level: "fault_enumeration",
        rule: "families: sweep = complete single-fault enumeration per small circuit (every write index x {short, EINTR, ENOSPC, sticky EIO}, every disk-full byte budget, every open errno, every read index x {short, EINTR, EIO}, chunked reads (1/7/64 bytes) with EIO at every chunk position, interrupted opens, every truncation offset, every single-bit flip, digit/space/newline substitution at every offset, every header token x replacement token); large = exports of several MiB (block-size dependent behaviour) fault-free or under transparent faults; history = the export path has a history (old contents / earlier larger exports at the same path, earlier imports of the same path, replacement of the file by another process with kept or renewed modification time) before the export / import under test; seeded = PRNG-drawn multi-fault plans on both sides; corrupt = exporter crash points and stored-data corruption between export and import; text = arbitrary/mutated text files to the importer; s5 = two exporters on one path under a PRNG baton schedule. evaluations = exports + imports + circuit evaluations executed. distinct_nontrivial = distinct worlds (hash of circuit source, fault plans, corruptions, schedule) in which at least one injected fault actually fired, at least one stored byte actually changed, or the export path had a history",
        assumptions: vec![
            "the kernel below the seam is healthy; reordering below the page cache / fsync semantics are not modelled (the exporter never syncs and the property promises no durability)".into(),
            "std::fs::File reaches the OS only through open64/open, write, read, close (start-up liveness test fails closed otherwise)".into(),
            "function equality is checked on all inputs for circuits with <= 10 input bits and on all-zeros, all-ones and 48 PRNG vectors otherwise".into(),
            "allocation failure is not injected for C11; workers run under RLIMIT_AS = 8 GiB so an absurd allocation is a deterministic abort attributed to its world".into(),
        ],
        components: components(),
        crash_is_violation: true,
        n_cases: plan.n_cases(),
        determinism_sample: 0,
        deferred_error: None,
    }
}

fn c16_def(plan: &c16::CasePlan) -> driver::PropertyDef {
    driver::PropertyDef {
        id: "C16",
        level: "fault_enumeration",
        rule: "families: honest = compiler and converter outputs over a fault-free channel (validation must accept); large = circuits of several million gates with damage in their last gates, also while the OS refuses to create threads; sweep = complete single-fault enumeration on the serde_json message of tiny circuits in all four encodings (every digit x every other digit, every number token x 16 boundary values and x 8 neighbouring/aliasing values (v+-1, v+2, v^1, v^32, v+32, v^64, v+64), every op name together with one adjacent number (burst damage inside one instruction record), every array element duplicated/dropped, every array emptied or truncated, pairs of array-level losses, the tail-loss lattice (every combination of per-array tail losses x size field x first output), pairs of lost instructions, a size field together with one instruction number, every op name x every name, every byte duplicated/deleted); seeded = 1-3 PRNG-drawn channel faults on small circuits; bristol = Bristol text damaged on the simulated disk, imported, validated, evaluated and converted to register form. evaluations = validate() and eval() calls executed. distinct_nontrivial = distinct damaged circuit VALUES (structural hash) that deserialised/imported successfully and differ from the honest circuit",
        assumptions: vec![
            "only circuit values reachable by damaging honest messages are explored; values far from any honest message (many coordinated edits) are outside this engine's reach".into(),
            "circuits declaring more than 2^26 input bits / 2^28 registers are validated and evaluated in a child process under RLIMIT_AS = 1 GiB and RLIMIT_CPU = 10 s (a death inside validate counts as not accepted, a death inside eval after acceptance is a violation); circuits with more than 2^20 input bits are validated but not evaluated".into(),
            "validate() itself panicking or rejecting a damaged circuit is logged, not a violation: the statement constrains accepted circuits only".into(),
            "eval is called with all-zeros, all-ones and two PRNG input vectors of exactly the declared shape".into(),
        ],
        components: components(),
        crash_is_violation: true,
        n_cases: plan.n_cases(),
        determinism_sample: 0,
        deferred_error: None,
    }
}

fn run_case_dispatch(property: &str, tier: &str, seed: u64, idx: u64) -> supervise::CaseResult {
    thread_local! {
        static C06PLAN: std::cell::RefCell<Option<(String, std::rc::Rc<c06::Plan>)>> = const { std::cell::RefCell::new(None) };
        static C16PLAN: std::cell::RefCell<Option<(String, std::rc::Rc<c16::CasePlan>)>> = const { std::cell::RefCell::new(None) };
        static C11PLAN: std::cell::RefCell<Option<(String, std::rc::Rc<c11::CasePlan>)>> = const { std::cell::RefCell::new(None) };
    }
    match property {
        "C06" => {
            let plan = C06PLAN.with(|c| {
                let mut c = c.borrow_mut();
                if c.as_ref().map(|(t, _)| t != tier).unwrap_or(true) {
                    *c = Some((tier.to_string(), std::rc::Rc::new(c06::Plan::load(tier).expect("corpus"))));
                }
                c.as_ref().unwrap().1.clone()
            });
            c06::run_case(&plan, seed, idx)
        }
        "C11" => {
            let plan = C11PLAN.with(|c| {
                let mut c = c.borrow_mut();
                if c.as_ref().map(|(t, _)| t != tier).unwrap_or(true) {
                    *c = Some((tier.to_string(), std::rc::Rc::new(c11::CasePlan::load(tier).expect("corpus"))));
                }
                c.as_ref().unwrap().1.clone()
            });
            c11::run_case(&plan, seed, idx)
        }
        "C16" => {
            let plan = C16PLAN.with(|c| {
                let mut c = c.borrow_mut();
                if c.as_ref().map(|(t, _)| t != tier).unwrap_or(true) {
                    *c = Some((tier.to_string(), std::rc::Rc::new(c16::CasePlan::load(tier).expect("corpus"))));
                }
                c.as_ref().unwrap().1.clone()
            });
            c16::run_case(&plan, seed, idx)
        }
        _ => panic!("unknown property {property}"),
    }
}

fn check(property: &str, tier: &str) -> i32 {
    install_panic_hook();
    let seed = seed_from_env();
    match property {
        "C06" => {
            let plan = match c06::Plan::load(tier) {
                Ok(p) => p,
                Err(e) => {
                    println!("HARNESS-ERROR: {e}");
                    return 2;
                }
            };
            let mut def = c06_def(&plan);
            def.determinism_sample = if tier == "thorough" { 512 } else { 64 };
            // fidelity batch first: validates the thread-as-process abstraction against real processes
            match c06::fidelity(&plan, seed, if tier == "thorough" { 200 } else { 24 }) {
                Ok((checked, skipped)) => {
                    println!("fidelity: {checked} (program, keys, history) samples agree between in-thread party and fresh OS process ({skipped} not comparable)");
                    def.assumptions.push(format!("fidelity batch this run: {checked} samples compared against fresh OS processes, 0 mismatches, {skipped} not comparable"));
                    if checked == 0 {
                        println!("HARNESS-ERROR: fidelity batch compared nothing");
                        return 2;
                    }
                }
                Err(e) => {
                    // deferred: the run below may explain it with a replayable violation
                    def.deferred_error = Some(e);
                }
            }
            driver::run_check(&def, tier, seed)
        }
        "C11" => {
            let plan = match c11::CasePlan::load(tier) {
                Ok(p) => p,
                Err(e) => {
                    println!("HARNESS-ERROR: {e}");
                    return 2;
                }
            };
            let mut def = c11_def(&plan);
            def.determinism_sample = if tier == "thorough" { 1024 } else { 96 };
            driver::run_check(&def, tier, seed)
        }
        "C16" => {
            let plan = match c16::CasePlan::load(tier) {
                Ok(p) => p,
                Err(e) => {
                    println!("HARNESS-ERROR: {e}");
                    return 2;
                }
            };
            let mut def = c16_def(&plan);
            def.determinism_sample = if tier == "thorough" { 1024 } else { 96 };
            driver::run_check(&def, tier, seed)
        }
        _ => {
            println!("HARNESS-ERROR: unknown property {property}");
            2
        }
    }
}

/// `replay <file>`: run the replay in a child process so that an abort / stack overflow / OOM kill
/// of the code under test is observed (and reported as the violation it is) instead of killing us.
fn replay(path: &str) -> i32 {
    let exe = std::env::current_exe().expect("exe");
    let out = match std::process::Command::new(exe).arg("replay-inner").arg(path).output() {
        Ok(o) => o,
        Err(e) => {
            println!("HARNESS-ERROR: {e}");
            return 2;
        }
    };
    print!("{}", String::from_utf8_lossy(&out.stdout));
    match out.status.code() {
        Some(c @ (0 | 1 | 2)) => c,
        _ => {
            let prop = std::fs::read_to_string(path)
                .ok()
                .and_then(|t| serde_json::from_str::<serde_json::Value>(&t).ok())
                .and_then(|v| v["property"].as_str().map(|s| s.to_string()))
                .unwrap_or_default();
            println!("VIOLATION property={prop} replay={path}");
            println!("  class=process_died {} {}", out.status, String::from_utf8_lossy(&out.stderr).lines().last().unwrap_or(""));
            1
        }
    }
}

fn replay_inner(path: &str) -> i32 {
    install_panic_hook();
    let t = match std::fs::read_to_string(path) {
        Ok(t) => t,
        Err(e) => {
            println!("HARNESS-ERROR: {path}: {e}");
            return 2;
        }
    };
    let v: serde_json::Value = match serde_json::from_str(&t) {
        Ok(v) => v,
        Err(e) => {
            println!("HARNESS-ERROR: {path}: {e}");
            return 2;
        }
    };
    if let Err(e) = seams::liveness_selftest() {
        println!("HARNESS-ERROR: {e}");
        return 2;
    }
    let prop = v["property"].as_str().unwrap_or("").to_string();
    if let Some(h) = v.get("by_worker_history").filter(|h| h.is_object()) {
        // re-create a worker's history: run the cases of its shard, in order, in THIS fresh process
        let tier = h["tier"].as_str().unwrap_or("quick").to_string();
        let seed = h["seed"].as_u64().unwrap_or(1);
        let nshards = h["nshards"].as_u64().unwrap_or(16).max(1);
        let first = h["first"].as_u64().unwrap_or(0);
        let last = h["last"].as_u64().unwrap_or(0);
        let want = v["signature"].as_str().unwrap_or("").to_string();
        let mut idx = first;
        let mut hit = None;
        while idx <= last {
            let r = run_case_dispatch(&prop, &tier, seed, idx);
            if idx == last {
                hit = r.violations.into_iter().find(|x| x.signature == want);
            }
            idx += nshards;
        }
        return match hit {
            Some(x) => {
                println!("VIOLATION property={prop} replay={path}");
                println!("  class={} signature={}", x.class, x.signature);
                println!("  {} [in a process that first ran cases {first}..{last} step {nshards}]", x.what);
                1
            }
            None => {
                println!("replay: no violation reproduced");
                0
            }
        };
    }
    match prop.as_str() {
        "C06" => match c06::replay(&v) {
            Ok(fs) if fs.is_empty() => {
                println!("replay: no violation reproduced");
                0
            }
            Ok(fs) => {
                for f in fs {
                    println!("VIOLATION property=C06 replay={path}");
                    println!("  class={} signature={}", f.class, f.signature);
                    println!("  {}", f.what);
                }
                1
            }
            Err(e) => {
                println!("HARNESS-ERROR: {e}");
                2
            }
        },
        "C11" => match c11::replay(&v) {
            Ok(fs) if fs.is_empty() => {
                println!("replay: no violation reproduced");
                0
            }
            Ok(fs) => {
                for f in fs {
                    println!("VIOLATION property=C11 replay={path}");
                    println!("  class={} signature={}", f.class, f.signature);
                    println!("  {}", f.what);
                }
                1
            }
            Err(e) => {
                println!("HARNESS-ERROR: {e}");
                2
            }
        },
        "C16" => match c16::replay(&v) {
            Ok(fs) if fs.is_empty() => {
                println!("replay: no violation reproduced");
                0
            }
            Ok(fs) => {
                for f in fs {
                    println!("VIOLATION property=C16 replay={path}");
                    println!("  class={} signature={}", f.class, f.signature);
                    println!("  {}", f.what);
                }
                1
            }
            Err(e) => {
                println!("HARNESS-ERROR: {e}");
                2
            }
        },
        _ => {
            println!("HARNESS-ERROR: unknown property in replay file");
            2
        }
    }
}

fn main() {
    let args: Vec<String> = std::env::args().collect();
    match args.get(1).map(|s| s.as_str()) {
        Some("selftest") => match seams::liveness_selftest() {
            Ok(()) => println!("seams alive"),
            Err(e) => {
                eprintln!("HARNESS-ERROR: {e}");
                std::process::exit(2);
            }
        },
        Some("corpus-filter") => corpus_filter(),
        Some("check") => std::process::exit(check(&args[2], args.get(3).map(|s| s.as_str()).unwrap_or("quick"))),
        Some("world") => {
            // garble-sim world C06 <tier> <idx> : print the world of a C06 case without running it
            install_panic_hook();
            let plan = c06::Plan::load(&args[3]).expect("plan");
            let (w, family, _) = c06::make_world(&plan, seed_from_env(), args[4].parse().unwrap());
            println!("// family {family}, {} parties\n{}", w.parties.len(), w.program.src);
        }
        Some("gen-const") => {
            // garble-sim gen-const <n> : print n constant-arithmetic programs and how they fare
            install_panic_hook();
            let mut p = prng::Prng::new(seed_from_env());
            for _ in 0..args.get(2).and_then(|s| s.parse().ok()).unwrap_or(10) {
                let src = match args.get(3).map(|s| s.as_str()) {
                    Some("scaled") => gen::scaled_program(&mut p),
                    Some("word") => gen::word_program(&mut p),
                    Some("layout") => gen::layout_program(&mut p),
                    Some("sized") => gen::const_sized_program(&mut p),
                    _ => gen::const_arith_program(&mut p),
                };
                let a = analyse(&src, &mut p);
                let r = guarded(|| compile_src(&src, "main", build_consts(&a.consts, &[], 0), Opts { register: false, dedup: true }, false));
                let (o, _) = outcome_of(r);
                println!("{src}\n// typechecks={} consts={:?}\n// -> {:?}\n", a.typechecks, a.consts.iter().map(|c| (c.name.clone(), c.val)).collect::<Vec<_>>(), o);
            }
        }
        Some("try") => {
            // garble-sim try <file.garble.rs> : compile a program with every option, print the outcomes
            install_panic_hook();
            let src = std::fs::read_to_string(&args[2]).expect("file");
            let mut p = prng::Prng::new(1);
            let a = analyse(&src, &mut p);
            println!("typechecks={} consts={:?} fns={:?} {}", a.typechecks, a.consts, a.pub_fns, a.note);
            for o in Opts::all() {
                let r = guarded(|| compile_src(&src, a.pub_fns.first().map(|s| s.as_str()).unwrap_or("main"), build_consts(&a.consts, &[], 0), o, false));
                let (out, c) = outcome_of(r);
                let parties = c.as_ref().map(|c| c.input_lengths().collect::<Vec<_>>());
                println!("{} -> {:?} parties={:?}", o.name(), out, parties);
            }
        }
        Some("replay") => std::process::exit(replay(&args[2])),
        Some("c11-child") => {
            install_panic_hook();
            supervise::limit_address_space(8 << 30);
            std::process::exit(c11::child_main())
        }
        Some("c16-child") => {
            install_panic_hook();
            std::process::exit(c16::child_main())
        }
        Some("c06-child") => {
            install_panic_hook();
            std::process::exit(c06::fidelity_child())
        }
        Some("replay-inner") => {
            supervise::limit_address_space(8 << 30);
            std::process::exit(replay_inner(&args[2]))
        }
        Some("case") => {
            // garble-sim case <property> <tier> <idx> : run one case in-process, print result
            install_panic_hook();
            let t0 = std::time::Instant::now();
            let r = run_case_dispatch(&args[2], &args[3], seed_from_env(), args[4].parse().unwrap());
            println!("{}", serde_json::to_string_pretty(&r).unwrap());
            eprintln!("took {:?}", t0.elapsed());
        }
        Some("worker") => {
            install_panic_hook();
            supervise::worker_main(&args[2..], &run_case_dispatch);
        }
        Some("gen-stats") => gen_stats(args.get(2).and_then(|s| s.parse().ok()).unwrap_or(200), args.get(3).map(|s| s.as_str()) == Some("show")),
        _ => {
            eprintln!("usage");
            std::process::exit(2);
        }
    }
}
