//! C11 — Bristol export/import under a faulty syscall layer and a faulty disk.
//! World: an exporter and an importer share the simulated disk; the real
//! `format_as_bristol` / `bristol_to_garble` (and the lib.rs wrappers) run over the
//! open/write/read seams. Oracles O1–O4 as in DESIGN.md §3.2.

use crate::bristol_ref;
use crate::gen;
use crate::prng::{tag, Digest, Prng};
use crate::seams::{self, Act, Plan};
use crate::supervise::{CaseResult, Violation};
use crate::workload::*;
use garble_lang::circuit::{Circuit, PANIC_RESULT_SIZE_IN_BITS};
use garble_lang::circuit_type::CircuitType;
use serde::{Deserialize, Serialize};
use std::collections::{BTreeMap, BTreeSet};

#[derive(Clone, Debug, Serialize, Deserialize, PartialEq, Eq)]
#[serde(rename_all = "snake_case")]
pub enum Corruption {
    BitFlip { off: usize, bit: u8 },
    Subst { off: usize, byte: u8 },
    Truncate { len: usize },
    /// power loss: everything from a 4096-aligned point on is lost (dropped or zero-filled)
    DropTail { from: usize },
    ZeroTail { from: usize },
    ZeroSector { sector: usize },
    GarbageSector { sector: usize, seed: u64 },
    DupSector { sector: usize },
    SwapSectors { a: usize, b: usize },
    Insert { off: usize, bytes: Vec<u8> },
    Delete { off: usize, n: usize },
    /// replace the k-th whitespace-separated token
    ReplaceToken { index: usize, with: String },
    DupLine { line: usize },
    DelLine { line: usize },
    SwapLines { a: usize, b: usize },
    /// non-UTF-8 bytes
    Invalid { off: usize },
    /// a foreign line (comment, rule, pasted text) of `len` characters of `bytes_per_char`-byte
    /// UTF-8 characters after an ASCII prefix of `prefix` bytes, inserted before line `line`
    ForeignLine { line: usize, prefix: usize, len: usize, bytes_per_char: u8 },
    /// the same kind of text spliced into the middle of the file at a byte offset
    ForeignText { off: usize, len: usize, bytes_per_char: u8 },
    /// a gate line as other Bristol dialects write them (MAND with several outputs, EQ, EQW, NOT,
    /// OR, NAND, arities 0..6 in and 0..4 out, token count consistent with the arities or off by
    /// one, wires in range / at the boundary / absurd), inserted before gate line `line` or put
    /// in its place; the header's gate count follows an insertion
    DialectLine { line: usize, seed: u64, replace: bool },
}

fn foreign(len: usize, bytes_per_char: u8) -> String {
    let ch = match bytes_per_char {
        1 => '#',
        2 => 'é',
        3 => '─',
        _ => '𝟙',
    };
    std::iter::repeat(ch).take(len).collect()
}

const SECTOR: usize = 512;

pub fn apply_corruption(img: &mut Vec<u8>, c: &Corruption) -> bool {
    let before = img.clone();
    match c {
        Corruption::BitFlip { off, bit } => {
            if let Some(b) = img.get_mut(*off) {
                *b ^= 1 << (bit % 8);
            }
        }
        Corruption::Subst { off, byte } => {
            if let Some(b) = img.get_mut(*off) {
                *b = *byte;
            }
        }
        Corruption::Truncate { len } => img.truncate(*len),
        Corruption::DropTail { from } => img.truncate(*from),
        Corruption::ZeroTail { from } => {
            for b in img.iter_mut().skip(*from) {
                *b = 0;
            }
        }
        Corruption::ZeroSector { sector } => {
            for b in img.iter_mut().skip(sector * SECTOR).take(SECTOR) {
                *b = 0;
            }
        }
        Corruption::GarbageSector { sector, seed } => {
            let mut p = Prng::new(*seed);
            let alphabet = b"0123456789 \n  XORANDINV1212";
            for b in img.iter_mut().skip(sector * SECTOR).take(SECTOR) {
                *b = alphabet[p.usize_below(alphabet.len())];
            }
        }
        Corruption::DupSector { sector } => {
            let s = sector * SECTOR;
            if s < img.len() {
                let e = (s + SECTOR).min(img.len());
                let chunk = img[s..e].to_vec();
                let at = e;
                img.splice(at..at, chunk);
            }
        }
        Corruption::SwapSectors { a, b } => {
            let (a, b) = (a * SECTOR, b * SECTOR);
            if a + SECTOR <= img.len() && b + SECTOR <= img.len() && a != b {
                for k in 0..SECTOR {
                    img.swap(a + k, b + k);
                }
            }
        }
        Corruption::Insert { off, bytes } => {
            let at = (*off).min(img.len());
            img.splice(at..at, bytes.iter().copied());
        }
        Corruption::Delete { off, n } => {
            let at = (*off).min(img.len());
            let e = (at + n).min(img.len());
            img.drain(at..e);
        }
        Corruption::ReplaceToken { index, with } => {
            // token boundaries on ASCII whitespace, byte-wise (the image may not be UTF-8)
            let mut k = 0;
            let mut i = 0;
            while i < img.len() {
                while i < img.len() && img[i].is_ascii_whitespace() {
                    i += 1;
                }
                let s = i;
                while i < img.len() && !img[i].is_ascii_whitespace() {
                    i += 1;
                }
                if s < i {
                    if k == *index {
                        img.splice(s..i, with.bytes());
                        break;
                    }
                    k += 1;
                }
            }
        }
        Corruption::DupLine { line } | Corruption::DelLine { line } => {
            let mut starts = vec![0usize];
            for (i, b) in img.iter().enumerate() {
                if *b == b'\n' && i + 1 < img.len() {
                    starts.push(i + 1);
                }
            }
            if let Some(&s) = starts.get(*line) {
                let e = starts.get(line + 1).copied().unwrap_or(img.len());
                if matches!(c, Corruption::DupLine { .. }) {
                    let chunk = img[s..e].to_vec();
                    img.splice(e..e, chunk);
                } else {
                    img.drain(s..e);
                }
            }
        }
        Corruption::SwapLines { a, b } => {
            let text = img.clone();
            let mut lines: Vec<&[u8]> = text.split(|x| *x == b'\n').collect();
            if *a < lines.len() && *b < lines.len() {
                lines.swap(*a, *b);
                *img = lines.join(&b'\n');
            }
        }
        Corruption::ForeignLine { line, prefix, len, bytes_per_char } => {
            let mut starts = vec![0usize];
            for (i, b) in img.iter().enumerate() {
                if *b == b'\n' && i + 1 < img.len() {
                    starts.push(i + 1);
                }
            }
            let at = starts.get(*line).copied().unwrap_or(img.len());
            let text = format!("{}{}\n", "# 12 345 ".chars().cycle().take(*prefix).collect::<String>(), foreign(*len, *bytes_per_char));
            img.splice(at..at, text.bytes());
        }
        Corruption::ForeignText { off, len, bytes_per_char } => {
            let at = (*off).min(img.len());
            img.splice(at..at, foreign(*len, *bytes_per_char).bytes());
        }
        Corruption::Invalid { off } => {
            let at = (*off).min(img.len());
            img.splice(at..at, [0xff, 0xfe, 0x80]);
        }
        Corruption::DialectLine { line, seed, replace } => {
            // a MOSTLY valid line: inputs are primary inputs of the circuit (always assigned), the
            // first output is the wire the replaced line assigned (or a free-looking one); every
            // position has a small chance of carrying a boundary value instead
            let mut p = Prng::new(*seed);
            let text = String::from_utf8_lossy(img).to_string();
            let mut lines: Vec<String> = text.lines().map(|l| l.to_string()).collect();
            let nums = |l: Option<&String>| -> Vec<u64> { l.map(|l| l.split_ascii_whitespace().filter_map(|t| t.parse().ok()).collect()).unwrap_or_default() };
            let header = nums(lines.first());
            let wires = header.get(1).copied().unwrap_or(8);
            let total_inputs: u64 = nums(lines.get(1)).iter().skip(1).fold(0u64, |a, b| a.saturating_add(*b)).clamp(1, 1 << 20);
            let op = *p.pick(&["MAND", "MAND", "MAND", "EQ", "EQW", "NOT", "OR", "NAND", "XOR", "AND", "INV"]);
            let (n_in, n_out) = if op == "MAND" {
                let n = p.range(1, 3);
                (2 * n, n)
            } else {
                (p.range(1, 3), if p.chance(4, 5) { 1 } else { p.below(3) })
            };
            let boundary = |p: &mut Prng| -> String {
                match p.below(6) {
                    0 => wires.to_string(),
                    1 => wires.saturating_sub(1).to_string(),
                    2 => "4294967295".to_string(),
                    3 => "18446744073709551615".to_string(),
                    4 => wires.saturating_add(p.below(1000)).to_string(),
                    _ => p.below(wires.max(1)).to_string(),
                }
            };
            // gate lines start after the three header lines and the empty line
            let first_gate = lines.iter().position(|l| l.trim().is_empty()).map(|i| i + 1).unwrap_or(lines.len());
            let at = (first_gate + *line).min(lines.len());
            let old_out: Option<String> = lines.get(at).and_then(|l| {
                let t: Vec<&str> = l.split_ascii_whitespace().collect();
                if t.len() >= 3 { Some(t[t.len() - 2].to_string()) } else { None }
            });
            let mut toks = vec![n_in.to_string(), n_out.to_string()];
            for _ in 0..n_in {
                toks.push(if p.chance(1, 8) { boundary(&mut p) } else { p.below(total_inputs).to_string() });
            }
            for k in 0..n_out {
                toks.push(match (&old_out, k) {
                    (Some(o), 0) if p.chance(7, 8) => o.clone(),
                    _ => {
                        if p.chance(1, 2) {
                            boundary(&mut p)
                        } else {
                            p.below(wires.max(1)).to_string()
                        }
                    }
                });
            }
            if p.chance(1, 12) {
                toks.push(boundary(&mut p));
            } else if p.chance(1, 12) {
                toks.pop();
            }
            toks.push(op.to_string());
            if *replace && at < lines.len() {
                lines[at] = toks.join(" ");
            } else {
                lines.insert(at, toks.join(" "));
                if let Some(first) = lines.first_mut() {
                    let mut h: Vec<String> = first.split_ascii_whitespace().map(|t| t.to_string()).collect();
                    if let Some(g) = h.first().and_then(|t| t.parse::<u64>().ok()) {
                        h[0] = g.saturating_add(1).to_string();
                        *first = h.join(" ");
                    }
                }
            }
            *img = (lines.join("\n") + "\n").into_bytes();
        }
    }
    *img != before
}

#[derive(Clone, Debug, Serialize, Deserialize, PartialEq, Eq)]
pub struct S5 {
    pub program_b: ProgSpec,
    pub sched_seed: u64,
    /// explicit choice sequence (replay / minimised); None = draw from sched_seed
    #[serde(default)]
    pub schedule: Option<Vec<u8>>,
    /// None: both exporters write the same path. Some(name): exporter B writes this sibling path
    /// instead; then neither export may disturb the other (each Ok export must leave exactly its
    /// own reference bytes)
    #[serde(default)]
    pub path_b: Option<String>,
}

/// What happened at the export path before the export under test (the path has a history).
#[derive(Clone, Debug, Serialize, Deserialize, PartialEq, Eq)]
#[serde(rename_all = "snake_case")]
pub enum Prior {
    /// an earlier, fault-free export of another circuit to the same path
    Export(ProgSpec),
    /// arbitrary old file contents
    Bytes(Vec<u8>),
    /// old contents RELATED to what is about to be exported (what an "is the file up to date?"
    /// shortcut has to tell apart): the fault-free export of the same circuit, 0 = as it is,
    /// 1 = followed by `extra` (a stale tail), 2 = cut off after `at` bytes, 3 = with the byte at
    /// `at` replaced by `extra[0]`
    Related { kind: u8, at: usize, extra: Vec<u8> },
}

#[derive(Clone, Debug, Serialize, Deserialize, PartialEq, Eq)]
pub struct World {
    /// circuit source; None for raw-text importer cases
    pub program: Option<ProgSpec>,
    #[serde(default = "yes")]
    pub dedup: bool,
    pub keys: Keys,
    #[serde(default)]
    pub export_plan: Plan,
    #[serde(default)]
    pub corruptions: Vec<Corruption>,
    #[serde(default)]
    pub import_plan: Plan,
    /// go through compile_to_bristol / compile_bristol_to_circuit instead of the Circuit methods
    #[serde(default)]
    pub via_lib: bool,
    #[serde(default)]
    pub s5: Option<S5>,
    /// explicit file contents (importer-only case)
    #[serde(default)]
    pub raw_text: Option<Vec<u8>>,
    /// history of the export path before the export under test
    #[serde(default)]
    pub prior: Vec<Prior>,
    /// file name under /SIMDISK/ as raw bytes (None = "circuit.bristol.txt"): spaces, non-ASCII,
    /// NOT valid UTF-8, very long, no extension, hidden
    #[serde(default)]
    pub file_name: Option<Vec<u8>>,
    /// Some(errno): while exporting and importing, writes to stdout / stderr fail with this errno
    #[serde(default)]
    pub stdio_broken: Option<i32>,
    /// after the import, ANOTHER process replaces the file with its own export of this circuit
    /// (optionally keeping the modification time: cp -p, rsync -t, coarse timestamps), and the
    /// importing process imports the path again: it must now get THAT circuit
    #[serde(default)]
    pub outside_replace: Option<ProgSpec>,
    #[serde(default)]
    pub outside_keeps_mtime: bool,
    /// environment variables / host files (entries "file:<path>") that read differently for this
    /// exporter + importer than they really are (found by discovery: only what the code under
    /// test actually asked for is ever listed)
    #[serde(default)]
    pub env_flip: Vec<String>,
    /// the path is a FIFO / pipe (`mkfifo`, `/dev/stdout`, `/dev/fd/N`) instead of a regular file:
    /// not seekable, not truncatable, `fsync` says EINVAL, `stat` says S_IFIFO with size 0, what a
    /// reader consumed is gone for the next `open`
    #[serde(default)]
    pub pipe: bool,
    /// export + import by a process built with default cargo features in release mode, on a real
    /// scratch file (no faults there: the simulated disk belongs to this build)
    #[serde(default)]
    pub plain_build: bool,
    /// before the export under test, ANOTHER caller in the same process exports a hand-built circuit
    /// with fewer than 161 outputs to the same path (a panic inside the exporter on this tree, caught
    /// by that caller) and imports a path that does not exist (an error): part of the process's history
    #[serde(default)]
    pub misuse_before: bool,
    /// the path handed to the library is the bare, RELATIVE file name (the current working directory
    /// of the process is the directory the file lives in), instead of an absolute path
    #[serde(default)]
    pub relative_name: bool,
    /// history of the *process*: worlds the same thread ran through earlier (a long-lived
    /// exporter/importer). Their own verdicts are not judged here.
    #[serde(default)]
    pub earlier: Vec<World>,
}

fn yes() -> bool {
    true
}

#[derive(Clone, Debug)]
pub struct Finding {
    pub class: String,
    pub signature: String,
    pub what: String,
}

fn finding(class: &str, site: &str, what: String) -> Finding {
    Finding {
        class: class.into(),
        signature: if site.is_empty() { class.to_string() } else { format!("{class}@{site}") },
        what,
    }
}

#[derive(Default, Clone, Debug)]
pub struct Obs {
    pub findings: Vec<Finding>,
    pub counters: BTreeMap<String, u64>,
    pub executions: u64,
    pub image_hashes: Vec<u64>,
    pub log_digest: String,
    pub nontrivial: bool,
    pub schedule: Option<Vec<u8>>,
    pub summary: String,
}

fn bump(c: &mut BTreeMap<String, u64>, k: &str) {
    *c.entry(k.to_string()).or_insert(0) += 1;
}

fn input_vectors(input_gates: &[usize], seedtag: u64) -> Vec<Vec<Vec<bool>>> {
    let total: usize = input_gates.iter().sum();
    let split = |bits: &[bool]| -> Vec<Vec<bool>> {
        let mut out = vec![];
        let mut k = 0;
        for &n in input_gates {
            out.push(bits[k..k + n].to_vec());
            k += n;
        }
        out
    };
    let mut vs = vec![];
    if total <= 10 {
        for m in 0u32..(1 << total) {
            let bits: Vec<bool> = (0..total).map(|i| (m >> i) & 1 == 1).collect();
            vs.push(split(&bits));
        }
    } else {
        vs.push(split(&vec![false; total]));
        vs.push(split(&vec![true; total]));
        let mut p = Prng::new(seedtag);
        // very wide circuits: fewer vectors, 64 bits per draw
        let n = if total > (1 << 18) { 3 } else { 48 };
        for _ in 0..n {
            let bits: Vec<bool> = if total > (1 << 18) {
                let mut b = Vec::with_capacity(total);
                while b.len() < total {
                    let x = p.next_u64();
                    for i in 0..64 {
                        if b.len() < total {
                            b.push((x >> i) & 1 == 1);
                        }
                    }
                }
                b
            } else {
                (0..total).map(|_| p.chance(1, 2)).collect()
            };
            vs.push(split(&bits));
        }
    }
    vs
}

fn from_bristol_class(e: &garble_lang::convert::FromBristolError) -> &'static str {
    use garble_lang::convert::FromBristolError as E;
    match e {
        E::IoError(_) => "IoError",
        E::ParseIntError(_) => "ParseIntError",
        E::UnknownGate(_) => "UnknownGate",
        E::MissingGateType => "MissingGateType",
        E::OtherParseError(_) => "OtherParseError",
        E::InputPartiesMismatch(_, _) => "InputPartiesMismatch",
        E::OutputCountMismatch(_, _) => "OutputCountMismatch",
        E::MissingLine => "MissingLine",
        E::MalformedLine(_) => "MalformedLine",
        E::InvalidWireIndex(_) => "InvalidWireIndex",
        _ => "other",
    }
}

enum ExportRes {
    Ok,
    Io,
    OutputIsInput,
    OtherErr(String),
    Panic(String),
}

fn do_export(c: &Circuit, src: &str, path: &std::path::Path, via_lib: bool) -> ExportRes {
    use garble_lang::convert::ToBristolError as T;
    if via_lib {
        let r = guarded(|| garble_lang::compile_to_bristol(src, path));
        return match r {
            Ok(Ok(())) => ExportRes::Ok,
            Ok(Err(garble_lang::Error::ConvertError(garble_lang::convert::ConverterError::ToBristolError(T::IoError(_))))) => ExportRes::Io,
            Ok(Err(garble_lang::Error::ConvertError(garble_lang::convert::ConverterError::ToBristolError(T::OutputWireIsInput)))) => {
                ExportRes::OutputIsInput
            }
            Ok(Err(e)) => ExportRes::OtherErr(format!("{e:?}").chars().take(80).collect()),
            Err(m) => ExportRes::Panic(m),
        };
    }
    match guarded(|| c.format_as_bristol(path)) {
        Ok(Ok(())) => ExportRes::Ok,
        Ok(Err(T::IoError(_))) => ExportRes::Io,
        Ok(Err(T::OutputWireIsInput)) => ExportRes::OutputIsInput,
        Ok(Err(e)) => ExportRes::OtherErr(format!("{e:?}").chars().take(80).collect()),
        Err(m) => ExportRes::Panic(m),
    }
}

enum ImportRes {
    Ok(Circuit),
    Err(&'static str),
    Panic(String),
}

fn do_import(path: &std::path::Path, via_lib: bool) -> ImportRes {
    if via_lib {
        return match guarded(|| garble_lang::compile_bristol_to_circuit(path)) {
            Ok(Ok(c)) => ImportRes::Ok(c),
            Ok(Err(garble_lang::Error::ConvertError(garble_lang::convert::ConverterError::FromBristolError(e)))) => {
                ImportRes::Err(from_bristol_class(&e))
            }
            Ok(Err(_)) => ImportRes::Err("other"),
            Err(m) => ImportRes::Panic(m),
        };
    }
    match guarded(|| Circuit::bristol_to_garble(path)) {
        Ok(Ok(c)) => ImportRes::Ok(c),
        Ok(Err(e)) => ImportRes::Err(from_bristol_class(&e)),
        Err(m) => ImportRes::Panic(m),
    }
}

fn fired_split(f: &BTreeMap<&'static str, u64>) -> (u64, u64, u64, u64) {
    let g = |k: &str| f.get(k).copied().unwrap_or(0);
    // a lock request that would never be granted counts as a hard fault for the verdict on the
    // operation's result (it gets a finding of its own: the operation would hang); a refused
    // non-blocking request is the environment saying no
    let locks = g("flock_would_block") + g("flock_would_block_forever");
    let hard_w = g("write_err") + g("write_err_sticky") + g("enospc") + g("open_write_err") + g("write_after_sticky") + g("fsync_err") + locks;
    let soft_w = g("short_write") + g("write_eintr") + g("enospc_short") + g("open_eintr");
    let hard_r = g("read_err") + g("read_err_sticky") + g("open_read_err") + locks;
    let soft_r = g("short_read") + g("read_eintr") + g("open_eintr") + g("stat_size_lied");
    (hard_w, soft_w, hard_r, soft_r)
}

/// Same function on the chosen input vectors: original minus panic bits vs imported circuit.
fn function_equal(orig: &Circuit, imported: &Circuit, seedtag: u64) -> Result<u64, String> {
    if orig.input_gates != imported.input_gates {
        return Err(format!("party sizes {:?} became {:?}", orig.input_gates, imported.input_gates));
    }
    let mut n = 0;
    for iv in input_vectors(&orig.input_gates, seedtag) {
        let a = guarded(|| orig.eval(&iv)).map_err(|m| format!("original circuit eval panicked: {m}"))?;
        let b = guarded(|| imported.eval(&iv)).map_err(|m| format!("imported circuit eval panicked: {m}"))?;
        let a = &a[PANIC_RESULT_SIZE_IN_BITS..];
        if a != b.as_slice() {
            return Err(format!("outputs differ on input {iv:?}: original {a:?}, imported {b:?}"));
        }
        n += 1;
    }
    Ok(n)
}

/// O2 on a fault-free export: well-formed text + three-way function equality.
fn check_reference(c: &Circuit, text: &[u8], obs: &mut Obs, seedtag: u64) {
    let Ok(s) = std::str::from_utf8(text) else {
        obs.findings.push(finding("export_not_utf8", "", "fault-free export is not UTF-8".into()));
        return;
    };
    let nout = c.output_gates.len() - PANIC_RESULT_SIZE_IN_BITS;
    match bristol_ref::parse(s) {
        Err(e) => obs.findings.push(finding("export_malformed", "", format!("fault-free export does not parse as Bristol: {e}"))),
        Ok(b) => {
            if let Err(e) = bristol_ref::well_formed(&b, &c.input_gates, nout) {
                obs.findings.push(finding("export_malformed", "", format!("fault-free export is not well-formed Bristol: {e}")));
                return;
            }
            for iv in input_vectors(&c.input_gates, seedtag) {
                let a = match guarded(|| c.eval(&iv)) {
                    Ok(a) => a,
                    Err(_) => return,
                };
                let a = &a[PANIC_RESULT_SIZE_IN_BITS..];
                obs.executions += 1;
                match bristol_ref::eval(&b, &iv) {
                    Some(r) if r.as_slice() == a => {}
                    other => {
                        obs.findings.push(finding(
                            "export_function_differs",
                            "",
                            format!("exported text evaluates (independent evaluator) to {other:?} but the circuit's non-panic outputs are {a:?} on {iv:?}"),
                        ));
                        return;
                    }
                }
            }
        }
    }
}

/// Writer-block discovery through the seam. The fault-free reference export has just passed the
/// `write` seam; its events say how the exporter cuts the text into writes. If one write carried
/// L > 1 gate lines, the exporter batches its output, and the circuits that matter are the ones
/// whose gate count sits exactly on a batch boundary - which no drawn program hits by chance (S120:
/// batches of 52428 gates, the last one lost when the count is an exact multiple). So prefixes of
/// this circuit with L-2 .. L+1 and 2L-2 .. 2L+1 gates (one output: the last wire; SSA prefixes are
/// circuits) are exported as well and held to the well-formedness clauses. On this tree every
/// line is one write (L = 1) and the probe ends after the counting.
fn chunk_boundary_probe(c: &Circuit, ref_bytes: &[u8], log_mark: usize, obs: &mut Obs) {
    let evs: Vec<seams::Ev> = seams::world().log.iter().skip(log_mark).copied().collect();
    let mut off = 0usize;
    let mut lmax = 0usize;
    for e in evs.iter().filter(|e| e.sys == b'w' && e.ret > 0) {
        let end = (off + e.ret as usize).min(ref_bytes.len());
        let piece = &ref_bytes[off.min(end)..end];
        let gate_lines = piece.split(|b| *b == b'\n').filter(|l| l.ends_with(b"XOR") || l.ends_with(b"AND") || l.ends_with(b"INV")).count();
        lmax = lmax.max(gate_lines);
        off = end;
    }
    if off != ref_bytes.len() || lmax <= 1 {
        bump(&mut obs.counters, "writer_batches_not_observed");
        return;
    }
    bump(&mut obs.counters, "writer_batches_observed");
    let total_in: usize = c.input_gates.iter().sum();
    let path = seams::sim_path("boundary.txt");
    for mult in 1..=2usize {
        for g in (mult * lmax).saturating_sub(2)..=mult * lmax + 1 {
            if g == 0 || g > c.gates.len() {
                continue;
            }
            let last = total_in + g - 1;
            let pc = Circuit { input_gates: c.input_gates.clone(), gates: c.gates[..g].to_vec(), output_gates: vec![last; PANIC_RESULT_SIZE_IN_BITS + 1] };
            seams::install_plan(Plan::default());
            let r = do_export(&pc, "", &path, false);
            obs.executions += 1;
            if let ExportRes::Ok = r {
                bump(&mut obs.counters, "writer_batch_boundary_exports");
                let bytes = seams::disk_get("/SIMDISK/boundary.txt").unwrap_or_default();
                let verdict = std::str::from_utf8(&bytes).map_err(|_| "not UTF-8".to_string()).and_then(bristol_ref::parse).and_then(|b| bristol_ref::well_formed(&b, &pc.input_gates, 1));
                if let Err(e) = verdict {
                    obs.findings.push(finding("export_ok_but_incomplete", "batch_boundary", format!("the exporter writes batches of {lmax} gate lines; the fault-free export of a prefix circuit with {g} gates returned Ok but the file is not well-formed Bristol: {e}")));
                    seams::disk_remove("/SIMDISK/boundary.txt");
                    return;
                }
            }
            seams::disk_remove("/SIMDISK/boundary.txt");
        }
    }
}

fn compile_ssa(prog: &ProgSpec, dedup: bool) -> Result<Circuit, String> {
    let consts = build_consts(&prog.consts, &[], 0);
    match guarded(|| compile_src(&prog.src, "main", consts, Opts { register: false, dedup }, false)) {
        Ok(Ok(ct)) => Ok(ct.unwrap_ssa()),
        Ok(Err(e)) => Err(format!("{e:?}").chars().take(100).collect()),
        Err(m) => Err(format!("compiler panicked: {m}")),
    }
}

fn img_hash(b: &[u8]) -> u64 {
    let mut d = Digest::new();
    d.bytes(b);
    d.finish().0
}

/// The subject of a world: compiled circuit, its fault-free reference export and the O2 verdict
/// on it. Computed once per (program, options, keys) and case: a sweep runs tens of thousands of
/// worlds on one subject. The cache is cleared at the start of every case, so a case's result
/// never depends on which cases the worker ran before.
#[derive(Clone, Default)]
struct Subject {
    circuit: Option<Circuit>,
    ref_bytes: Option<Vec<u8>>,
    expect_output_is_input: bool,
    findings: Vec<Finding>,
    counters: BTreeMap<String, u64>,
    executions: u64,
    fail_summary: Option<String>,
}

static SUBJECT_CACHE: std::sync::Mutex<Option<(String, Subject)>> = std::sync::Mutex::new(None);

pub fn clear_subject_cache() {
    *SUBJECT_CACHE.lock().unwrap_or_else(|e| e.into_inner()) = None;
}

fn prepared_subject(prog: &ProgSpec, dedup: bool, keys: Keys, seedtag: u64) -> Subject {
    let key = format!("{}|{}|{}|{}|{}", dedup, keys.k0, keys.k1, keys.drift, prog.src);
    if let Some((k, s)) = SUBJECT_CACHE.lock().unwrap_or_else(|e| e.into_inner()).as_ref() {
        if *k == key {
            let mut hit = s.clone();
            hit.executions = 0;
            return hit;
        }
    }
    let mut obs = Obs::default();
    let mut subj = Subject::default();
    let refpath = seams::sim_path("reference.txt");
    match compile_ssa(prog, dedup) {
        Err(e) => {
            bump(&mut obs.counters, "subject_did_not_compile");
            subj.fail_summary = Some(format!("subject did not compile: {e}"));
        }
        Ok(c) => {
            let total_in: usize = c.input_gates.iter().sum();
            let expect_output_is_input = c.output_gates[PANIC_RESULT_SIZE_IN_BITS..].iter().any(|&o| o < total_in);
            subj.expect_output_is_input = expect_output_is_input;
            // fault-free reference export (O2)
            seams::install_plan(Plan::default());
            let _ = seams::take_fired();
            let log_mark = seams::world().log.len();
            match do_export(&c, &prog.src, &refpath, false) {
                ExportRes::Ok => {
                    obs.executions += 1;
                    if expect_output_is_input {
                        obs.findings.push(finding("export_accepted_input_as_output", "", "export succeeded although a non-panic output is an input wire".into()));
                    }
                    let bytes = seams::disk_get("/SIMDISK/reference.txt").unwrap_or_default();
                    check_reference(&c, &bytes, &mut obs, seedtag);
                    chunk_boundary_probe(&c, &bytes, log_mark, &mut obs);
                    subj.ref_bytes = Some(bytes);
                }
                ExportRes::OutputIsInput => {
                    bump(&mut obs.counters, "export_output_is_input");
                    if !expect_output_is_input {
                        obs.findings.push(finding("export_rejected_valid_circuit", "", "OutputWireIsInput although no non-panic output is an input wire".into()));
                    }
                }
                ExportRes::Io => obs.findings.push(finding("export_failed_without_fault", "", "fault-free export returned an I/O error".into())),
                ExportRes::OtherErr(e) => obs.findings.push(finding("export_failed_without_fault", "", format!("fault-free export returned {e}"))),
                ExportRes::Panic(m) => obs.findings.push(finding("export_panicked", &panic_site(&m), format!("fault-free export panicked: {m}"))),
            }
            subj.circuit = Some(c);
        }
    }
    subj.findings = obs.findings;
    subj.counters = obs.counters;
    subj.executions = obs.executions;
    *SUBJECT_CACHE.lock().unwrap_or_else(|e| e.into_inner()) = Some((key, subj.clone()));
    subj
}

/// Run one world inside the current (party) thread.
fn run_world_inner(w: &World) -> Obs {
    for e in &w.earlier {
        let mut e = e.clone();
        e.earlier.clear();
        let _ = guarded(|| run_world_inner(&e));
        seams::reset_world();
    }
    let mut obs = Obs::default();
    seams::install_plan(Plan::default());
    seams::enter_party_env(w.env_flip.clone());
    let (path, pkey) = seams::sim_path_bytes(w.file_name.as_deref().unwrap_or(b"circuit.bristol.txt"));
    seams::enter_sim_cwd(w.relative_name);
    let path = if w.relative_name {
        use std::os::unix::ffi::OsStringExt;
        std::path::PathBuf::from(std::ffi::OsString::from_vec(w.file_name.clone().unwrap_or(b"circuit.bristol.txt".to_vec())))
    } else {
        path
    };
    let pstr: &str = &pkey;
    let refpath = seams::sim_path("reference.txt");
    seams::disk_remove(pstr);
    if w.pipe {
        seams::disk_make_pipe(pstr);
        bump(&mut obs.counters, "path_is_a_fifo");
    }
    let seedtag = tag(w.program.as_ref().map(|p| p.src.as_str()).unwrap_or("raw"));

    let mut circuit: Option<Circuit> = None;
    let mut ref_bytes: Option<Vec<u8>> = None;
    let mut expect_output_is_input = false;

    if let Some(prog) = &w.program {
        let subj = prepared_subject(prog, w.dedup, w.keys, seedtag);
        obs.executions += subj.executions;
        for (k, v) in &subj.counters {
            *obs.counters.entry(k.clone()).or_insert(0) += v;
        }
        obs.findings.extend(subj.findings.iter().cloned());
        if let Some(sum) = &subj.fail_summary {
            obs.summary = sum.clone();
            return obs;
        }
        circuit = subj.circuit.clone();
        ref_bytes = subj.ref_bytes.clone();
        expect_output_is_input = subj.expect_output_is_input;
    }

    if w.misuse_before {
        let tiny = Circuit { input_gates: vec![1], gates: vec![], output_gates: vec![0] };
        let p2 = path.clone();
        let a = guarded(move || tiny.format_as_bristol(&p2).is_ok()).is_err();
        let missing = seams::sim_path("no_such_file.bristol.txt");
        let b = guarded(move || Circuit::bristol_to_garble(&missing).is_ok()).is_err();
        *obs.counters.entry("other_callers_misuse_before_export".into()).or_insert(0) += 1 + (a as u64) + (b as u64);
        seams::disk_remove(pstr);
        if w.pipe {
            seams::disk_make_pipe(pstr);
        }
    }
    // ---------------- the path's history: earlier exports / old contents at the same path
    for pr in &w.prior {
        match pr {
            Prior::Bytes(b) => {
                seams::disk_put(pstr, b.clone());
                bump(&mut obs.counters, "prior_bytes");
            }
            Prior::Related { kind, at, extra } => {
                if let Some(r) = &ref_bytes {
                    let mut b = r.clone();
                    match kind {
                        0 => {}
                        1 => b.extend_from_slice(extra),
                        2 => b.truncate(at % (b.len() + 1)),
                        _ => {
                            if !b.is_empty() {
                                let i = at % b.len();
                                b[i] = extra.first().copied().unwrap_or(b'7');
                            }
                        }
                    }
                    seams::disk_put(pstr, b);
                    bump(&mut obs.counters, "prior_related_to_this_export");
                }
            }
            Prior::Export(pp) => {
                if let Ok(pc) = compile_ssa(pp, w.dedup) {
                    seams::install_plan(Plan::default());
                    if let ExportRes::Panic(m) = do_export(&pc, &pp.src, &path, false) {
                        obs.findings.push(finding("export_panicked", &panic_site(&m), format!("earlier export panicked: {m}")));
                    }
                    obs.executions += 1;
                    bump(&mut obs.counters, "prior_export");
                }
            }
        }
        obs.nontrivial = true;
    }

    // ---------------- export under the write-side fault plan (or S5, or raw text)
    let mut export_ok = false;
    let mut hard_w = 0;
    if let Some(raw) = &w.raw_text {
        seams::disk_put(pstr, raw.clone());
    } else if let (Some(c), Some(prog)) = (&circuit, &w.program) {
        if let Some(s5) = &w.s5 {
            // two exporters, same path, baton-scheduled at every intercepted syscall
            match compile_ssa(&s5.program_b, w.dedup) {
                Err(_) => {
                    bump(&mut obs.counters, "subject_did_not_compile");
                    return obs;
                }
                Ok(cb) => {
                    // the exporter threads get their hash keys from the seam too
                    let mut kp = Prng::new(s5.sched_seed ^ 0x5eed);
                    seams::push_keys(kp.next_u64(), kp.next_u64());
                    seams::push_keys(kp.next_u64(), kp.next_u64());
                    // reference bytes of B (fault-free, before the scheduled section)
                    let path_b = s5.path_b.as_ref().map(|n| seams::sim_path(n));
                    let ref_b = if path_b.is_some() {
                        seams::install_plan(Plan::default());
                        let rp = seams::sim_path("reference_b.txt");
                        match do_export(&cb, "", &rp, false) {
                            ExportRes::Ok => seams::disk_get("/SIMDISK/reference_b.txt"),
                            _ => None,
                        }
                    } else {
                        None
                    };
                    crate::sched::begin(2, Prng::new(s5.sched_seed), s5.schedule.clone());
                    let clock_seed = s5.sched_seed;
                    let mk = |circ: Circuit, tid: usize, p: std::path::PathBuf| {
                        std::thread::Builder::new()
                            .stack_size(64 << 20)
                            .spawn(move || {
                                struct Leave;
                                impl Drop for Leave {
                                    fn drop(&mut self) {
                                        crate::sched::leave();
                                    }
                                }
                                crate::sched::enter(tid);
                                let _g = Leave;
                                // both exporters live in the same simulated millisecond
                                seams::enter_party_clock(1_700_000_000_000_000_000 + (clock_seed % 1_000_000_000), 1_000);
                                let r = guarded(|| circ.format_as_bristol(&p).is_ok());
                                seams::leave_party_clock();
                                r
                            })
                            .unwrap()
                    };
                    let ha = mk(c.clone(), 0, path.clone());
                    let hb = mk(cb, 1, path_b.clone().unwrap_or_else(|| path.clone()));
                    crate::sched::start();
                    let ra = ha.join();
                    let rb = hb.join();
                    let (trace, points) = crate::sched::end();
                    obs.executions += 2;
                    *obs.counters.entry("s5_sched_points".into()).or_insert(0) += points;
                    let mut oks = vec![];
                    for r in [ra, rb] {
                        match r {
                            Ok(Ok(ok)) => oks.push(ok),
                            Ok(Err(m)) => {
                                oks.push(false);
                                obs.findings.push(finding("export_panicked", &panic_site(&m), format!("concurrent export panicked: {m}")))
                            }
                            Err(_) => {
                                oks.push(false);
                                obs.findings.push(finding("export_panicked", "thread", "exporter thread died".into()))
                            }
                        }
                    }
                    if let Some(nb) = &s5.path_b {
                        bump(&mut obs.counters, "s5_different_paths");
                        // different paths: the exports must not disturb each other
                        let img_a = seams::disk_get(pstr);
                        let img_b = seams::disk_get(&format!("{}{nb}", seams::SIM_PREFIX));
                        for (who, ok, img, want) in [("A", oks[0], &img_a, &ref_bytes), ("B", oks[1], &img_b, &ref_b)] {
                            if let Some(want) = want {
                                if !ok {
                                    obs.findings.push(finding("export_failed_without_fault", "", format!("concurrent export {who} to its own path failed although no fault was injected")));
                                } else if img.as_deref() != Some(want.as_slice()) {
                                    obs.findings.push(finding(
                                        "export_ok_but_incomplete",
                                        "",
                                        format!("two exports to DIFFERENT paths ran concurrently; export {who} returned Ok but its file ({} bytes) is not its fault-free export ({} bytes)", img.as_ref().map(|i| i.len()).unwrap_or(0), want.len()),
                                    ));
                                }
                            }
                        }
                    } else {
                        bump(&mut obs.counters, "s5_same_path");
                    }
                    obs.schedule = Some(trace);
                    obs.nontrivial = true;
                }
            }
        } else {
            seams::install_plan(w.export_plan.clone());
            let _ = seams::take_fired();
            seams::break_stdio(w.stdio_broken);
            let r = do_export(c, &prog.src, &path, w.via_lib);
            seams::break_stdio(None);
            obs.executions += 1;
            let fired = seams::take_fired();
            for (k, v) in &fired {
                *obs.counters.entry(format!("fired_{k}")).or_insert(0) += v;
            }
            let (hw, sw, _, _) = fired_split(&fired);
            hard_w = hw;
            if fired.get("flock_would_block_forever").copied().unwrap_or(0) > 0 {
                obs.findings.push(finding("export_blocks_forever", "", "the exporter asked for a blocking advisory lock on a file that another process keeps locked: it would never return".into()));
            }
            if hw + sw > 0 {
                obs.nontrivial = true;
            }
            seams::install_plan(Plan::default());
            let image = seams::disk_get(pstr);
            match r {
                ExportRes::Ok => {
                    export_ok = true;
                    bump(&mut obs.counters, "export_ok");
                    if hw > 0 {
                        obs.findings.push(finding(
                            "export_swallowed_error",
                            "",
                            format!("export returned Ok although {hw} hard I/O fault(s) were delivered to it"),
                        ));
                    }
                    if let Some(rb) = &ref_bytes {
                        if image.as_deref() != Some(rb.as_slice()) {
                            obs.findings.push(finding(
                                "export_ok_but_incomplete",
                                "",
                                format!(
                                    "export returned Ok but the file on disk ({} bytes) differs from the fault-free export ({} bytes)",
                                    image.as_ref().map(|i| i.len()).unwrap_or(0),
                                    rb.len()
                                ),
                            ));
                        }
                    }
                }
                ExportRes::Io => {
                    bump(&mut obs.counters, "export_err_io");
                    if hw == 0 {
                        obs.findings.push(finding(
                            "export_failed_without_fault",
                            "",
                            format!("export returned an I/O error although only transparent faults ({sw} short/EINTR) were injected"),
                        ));
                    }
                }
                ExportRes::OutputIsInput => {
                    bump(&mut obs.counters, "export_output_is_input");
                    if !expect_output_is_input {
                        obs.findings.push(finding("export_rejected_valid_circuit", "", "OutputWireIsInput although no non-panic output is an input wire".into()));
                    }
                }
                ExportRes::OtherErr(e) => obs.findings.push(finding("export_unexpected_error", "", format!("export returned {e}"))),
                ExportRes::Panic(m) => obs.findings.push(finding("export_panicked", &panic_site(&m), format!("export panicked: {m}"))),
            }
        }
    }

    // ---------------- the disk between export and import
    let mut image = seams::disk_get(pstr);
    let mut changed = false;
    if let Some(img) = image.as_mut() {
        for c in &w.corruptions {
            if apply_corruption(img, c) {
                changed = true;
                let name = serde_json::to_value(c).ok().and_then(|v| v.as_object().and_then(|o| o.keys().next().cloned())).unwrap_or_default();
                bump(&mut obs.counters, &format!("corruption_applied_{name}"));
            }
        }
        if changed {
            seams::disk_put(pstr, img.clone());
            obs.nontrivial = true;
        }
        obs.image_hashes.push(img_hash(img));
    }
    let intact = match (&image, &ref_bytes) {
        (Some(i), Some(r)) => i == r,
        _ => false,
    };

    // ---------------- import under the read-side fault plan
    seams::install_plan(w.import_plan.clone());
    let _ = seams::take_fired();
    seams::break_stdio(w.stdio_broken);
    let r = do_import(&path, w.via_lib);
    seams::break_stdio(None);
    obs.executions += 1;
    let fired = seams::take_fired();
    for (k, v) in &fired {
        *obs.counters.entry(format!("fired_{k}")).or_insert(0) += v;
    }
    let (_, _, hard_r, soft_r) = fired_split(&fired);
    if hard_r + soft_r > 0 {
        obs.nontrivial = true;
    }
    if fired.get("flock_would_block_forever").copied().unwrap_or(0) > 0 {
        obs.findings.push(finding("import_blocks_forever", "", "the importer asked for a blocking advisory lock on a file that another process keeps locked: it would never return".into()));
    }
    seams::install_plan(Plan::default());
    match r {
        ImportRes::Panic(m) => {
            obs.findings.push(finding("import_panicked", &panic_site(&m), format!("bristol_to_garble panicked: {m}")));
            obs.summary = "import panicked".into();
        }
        ImportRes::Err(class) => {
            bump(&mut obs.counters, &format!("import_err_{class}"));
            if intact && hard_r == 0 && (export_ok || w.raw_text.is_some()) && w.s5.is_none() {
                obs.findings.push(finding(
                    "import_failed_without_fault",
                    "",
                    format!("importing an intact export failed with {class} although only transparent read faults ({soft_r}) were injected"),
                ));
            }
            obs.summary = format!("import Err({class})");
        }
        ImportRes::Ok(ic) => {
            bump(&mut obs.counters, "import_ok");
            if intact {
                if let Some(c) = &circuit {
                    // both sides Ok on an intact file: the function must be preserved, faults or not
                    match function_equal(c, &ic, seedtag) {
                        Ok(n) => obs.executions += n,
                        Err(e) => obs.findings.push(finding(
                            if hard_r > 0 { "import_swallowed_error" } else { "roundtrip_function_differs" },
                            "",
                            format!("export and import both returned Ok but the imported circuit is not the exported one: {e}"),
                        )),
                    }
                }
            } else {
                bump(&mut obs.counters, "import_ok_of_damaged_file");
            }
            obs.summary = format!("import Ok ({} gates)", ic.gates.len());
        }
    }
    // ---------------- another process replaces the file; this process imports the path again
    if let Some(other) = &w.outside_replace {
        if let Ok(oc) = compile_ssa(other, w.dedup) {
            seams::install_plan(Plan::default());
            let tmp = seams::sim_path("outside.tmp.txt");
            if let ExportRes::Ok = do_export(&oc, &other.src, &tmp, false) {
                if let Some(bytes) = seams::disk_get("/SIMDISK/outside.tmp.txt") {
                    if w.outside_keeps_mtime {
                        seams::disk_put_keep_mtime(pstr, bytes);
                    } else {
                        seams::disk_put(pstr, bytes);
                    }
                    bump(&mut obs.counters, if w.outside_keeps_mtime { "outside_replace_same_mtime" } else { "outside_replace_new_mtime" });
                    obs.nontrivial = true;
                    obs.executions += 2;
                    match do_import(&path, w.via_lib) {
                        ImportRes::Panic(m) => obs.findings.push(finding("import_panicked", &panic_site(&m), format!("second import panicked: {m}"))),
                        ImportRes::Err(class) => obs.findings.push(finding(
                            "import_failed_without_fault",
                            "",
                            format!("another process replaced the file with its own intact export; importing the path again failed with {class}"),
                        )),
                        ImportRes::Ok(ic) => {
                            if let Err(e) = function_equal(&oc, &ic, tag(&other.src)) {
                                obs.findings.push(finding(
                                    "import_returned_stale_circuit",
                                    "",
                                    format!("another process replaced the file{}; importing the path again did not return the circuit that is in the file now: {e}", if w.outside_keeps_mtime { " (same modification time)" } else { "" }),
                                ));
                            }
                        }
                    }
                }
            }
        }
    }
    let _ = hard_w;
    let log = seams::take_log();
    let mut d = Digest::new();
    seams::digest_log(&log, &mut d);
    obs.log_digest = d.hex();
    obs
}

/// Run a batch of worlds that share their keys inside ONE party thread (a sweep runs tens of
/// thousands of worlds on one subject; a thread per world would dominate the cost).
pub fn run_worlds(keys: Keys, worlds: Vec<World>) -> Vec<Obs> {
    seams::reset_world();
    let n = worlds.len();
    let ws = worlds.clone();
    match run_party(keys, move || {
        ws.iter()
            .map(|w| {
                crate::supervise::announce_world(|| serde_json::to_string(w).unwrap());
                seams::reset_world();
                guarded(|| run_world_inner(w)).unwrap_or_else(|m| {
                    let mut o = Obs::default();
                    o.findings.push(finding("harness_panicked", &panic_site(&m), format!("world runner panicked: {m}")));
                    o
                })
            })
            .collect::<Vec<_>>()
    }) {
        Ok(v) => v,
        Err(m) => (0..n)
            .map(|_| {
                let mut o = Obs::default();
                o.findings.push(finding("harness_panicked", &panic_site(&m), format!("world runner panicked: {m}")));
                o
            })
            .collect(),
    }
}

/// `c11-child`: one world (JSON on stdin) in a fresh process; prints one line per finding.
/// Used for worlds with a flipped environment: what a process read from its environment once
/// (and keeps in a static) cannot be flipped inside a worker that has been running for a while.
pub fn child_main() -> i32 {
    use std::io::Read;
    let mut t = String::new();
    if std::io::stdin().read_to_string(&mut t).is_err() {
        return 2;
    }
    let Ok(w) = serde_json::from_str::<World>(&t) else { return 2 };
    let o = run_world(&w);
    seams::break_stdio(None);
    for f in &o.findings {
        println!("FINDING {}", serde_json::json!({"class": f.class, "signature": f.signature, "what": f.what}));
    }
    println!("DONE {} {}", o.executions, o.summary.replace('\n', " "));
    0
}

/// Parent side of `c11-child`.
fn run_world_in_child(w: &World) -> Obs {
    use std::io::Write;
    let mut obs = Obs::default();
    let Ok(exe) = std::env::current_exe() else { return obs };
    let Ok(mut child) = child_command(exe)
        .arg("c11-child")
        .env("RUST_BACKTRACE", "0")
        .stdin(std::process::Stdio::piped())
        .stdout(std::process::Stdio::piped())
        .stderr(std::process::Stdio::null())
        .spawn()
    else {
        return obs;
    };
    let _ = child.stdin.take().unwrap().write_all(serde_json::to_string(w).unwrap().as_bytes());
    let Ok(out) = child.wait_with_output() else { return obs };
    let text = String::from_utf8_lossy(&out.stdout).to_string();
    let mut done = false;
    for l in text.lines() {
        if let Some(j) = l.strip_prefix("FINDING ") {
            if let Ok(v) = serde_json::from_str::<serde_json::Value>(j) {
                obs.findings.push(Finding {
                    class: v["class"].as_str().unwrap_or("").to_string(),
                    signature: v["signature"].as_str().unwrap_or("").to_string(),
                    what: v["what"].as_str().unwrap_or("").to_string(),
                });
            }
        } else if let Some(r) = l.strip_prefix("DONE ") {
            done = true;
            obs.executions = r.split(' ').next().and_then(|n| n.parse().ok()).unwrap_or(1);
            obs.summary = r.split_once(' ').map(|x| x.1.to_string()).unwrap_or_default();
        }
    }
    if !done {
        obs.findings.push(finding("process_died", "env_flipped_child", format!("exporter/importer process with a flipped environment died ({})", out.status)));
    }
    obs.nontrivial = true;
    bump(&mut obs.counters, "environment_flipped_processes");
    obs
}

/// Export and import `c` in a process built with default cargo features in release mode.
fn plain_roundtrip(c: &Circuit, ref_bytes: &[u8], seedtag: u64, idx: u64, counters: &mut BTreeMap<String, u64>) -> Vec<Finding> {
    use std::io::Write;
    let mut out = vec![];
    let Some(exe) = plain_bin() else {
        *counters.entry("plain_build_unavailable".into()).or_insert(0) += 1;
        return out;
    };
    let dir = verif_dir().join("sim/target/run");
    let _ = std::fs::create_dir_all(&dir);
    let scratch = dir.join(format!("plain-{}-{idx}.bristol.txt", std::process::id()));
    let Ok(mut child) = child_command(&exe)
        .arg("bristol")
        .arg(&scratch)
        .stdin(std::process::Stdio::piped())
        .stdout(std::process::Stdio::piped())
        .stderr(std::process::Stdio::null())
        .spawn()
    else {
        return out;
    };
    let mut line = String::from("S");
    for x in flatten(&CircuitType::Ssa(c.clone())) {
        line.push(' ');
        line.push_str(&x.to_string());
    }
    line.push('\n');
    let mut stdin = child.stdin.take().unwrap();
    let writer = std::thread::spawn(move || {
        let _ = stdin.write_all(line.as_bytes());
    });
    let Ok(res) = child.wait_with_output() else { return out };
    let _ = writer.join();
    let _ = std::fs::remove_file(&scratch);
    *counters.entry("plain_build_roundtrips".into()).or_insert(0) += 1;
    let text = String::from_utf8_lossy(&res.stdout).to_string();
    let export = text.lines().find_map(|l| l.strip_prefix("EXPORT ")).unwrap_or("");
    let bytes_hex = text.lines().find_map(|l| l.strip_prefix("BYTES ")).unwrap_or("");
    let import = text.lines().find_map(|l| l.strip_prefix("IMPORT ")).unwrap_or("");
    let tagb = "default_features_release_build";
    if export.is_empty() || import.is_empty() {
        out.push(finding("process_died", tagb, format!("exporter/importer built with default cargo features in release mode died ({})", res.status)));
        return out;
    }
    if let Some(m) = export.strip_prefix("panic ") {
        out.push(finding("export_panicked", tagb, format!("format_as_bristol panicked in a process built with default cargo features in release mode: {m}")));
        return out;
    }
    if let Some(e) = export.strip_prefix("err ") {
        out.push(finding("export_failed_without_fault", tagb, format!("format_as_bristol failed on a healthy file system in a process built with default cargo features in release mode: {e}")));
        return out;
    }
    let bytes: Vec<u8> = (0..bytes_hex.len() / 2).filter_map(|i| u8::from_str_radix(&bytes_hex[2 * i..2 * i + 2], 16).ok()).collect();
    if bytes != ref_bytes {
        out.push(finding("export_ok_but_incomplete", tagb, format!("export returned Ok in a process built with default cargo features in release mode, but the file ({} bytes) differs from the fault-free export of this build ({} bytes)", bytes.len(), ref_bytes.len())));
    }
    if let Some(m) = import.strip_prefix("panic ") {
        out.push(finding("import_panicked", tagb, format!("bristol_to_garble panicked in a process built with default cargo features in release mode: {m}")));
    } else if let Some(e) = import.strip_prefix("err ") {
        if bytes == ref_bytes {
            out.push(finding("import_failed_without_fault", tagb, format!("importing an intact export failed in a process built with default cargo features in release mode: {e}")));
        }
    } else if let Some(rest) = import.strip_prefix("ok S ") {
        let flat: Vec<u64> = rest.split_ascii_whitespace().filter_map(|t| t.parse().ok()).collect();
        match unflatten('S', &flat) {
            Some(CircuitType::Ssa(ic)) if bytes == ref_bytes => {
                if let Err(e) = function_equal(c, &ic, seedtag) {
                    out.push(finding("roundtrip_function_differs", tagb, format!("export + import in a process built with default cargo features in release mode: {e}")));
                }
            }
            _ => {}
        }
    }
    out
}

pub fn run_world(w: &World) -> Obs {
    crate::supervise::announce_world(|| serde_json::to_string(w).unwrap());
    seams::reset_world();
    let w2 = w.clone();
    match run_party(w.keys, move || run_world_inner(&w2)) {
        Ok(o) => o,
        Err(m) => {
            let mut o = Obs::default();
            o.findings.push(finding("harness_panicked", &panic_site(&m), format!("world runner panicked: {m}")));
            o
        }
    }
}

// ------------------------------------------------------------------------------------------
// case generation
// ------------------------------------------------------------------------------------------

pub struct Tier {
    pub sweep: u64,
    /// exports of 1..10 MiB (block-size dependent behaviour of readers and writers)
    pub large: u64,
    pub history: u64,
    pub seeded: u64,
    pub corrupt: u64,
    pub text: u64,
    pub s5: u64,
}

pub fn tier(t: &str) -> Tier {
    if t == "thorough" {
        Tier { sweep: 480, large: 64, history: 100_000, seeded: 200_000, corrupt: 300_000, text: 200_000, s5: 10_000 }
    } else {
        Tier { sweep: 32, large: 7, history: 4_000, seeded: 8_000, corrupt: 12_000, text: 8_000, s5: 200 }
    }
}

pub struct CasePlan {
    pub corpus: Vec<CorpusEntry>,
    pub tier: Tier,
}

impl CasePlan {
    pub fn load(t: &str) -> Result<CasePlan, String> {
        Ok(CasePlan { corpus: load_corpus()?, tier: tier(t) })
    }
    pub fn n_cases(&self) -> u64 {
        self.tier.sweep + self.tier.large + self.tier.history + self.tier.seeded + self.tier.corrupt + self.tier.text + self.tier.s5
    }
    pub fn family(&self, idx: u64) -> (&'static str, u64) {
        let t = &self.tier;
        let mut i = idx;
        for (name, n) in [("sweep", t.sweep), ("large", t.large), ("history", t.history), ("seeded", t.seeded), ("corrupt", t.corrupt), ("text", t.text), ("s5", t.s5)] {
            if i < n {
                return (name, i);
            }
            i -= n;
        }
        ("s5", i)
    }
}

fn draw_subject(plan: &CasePlan, p: &mut Prng, allow_corpus: bool) -> ProgSpec {
    if allow_corpus && p.chance(1, 4) {
        // a corpus program without external constants and not too large
        for _ in 0..8 {
            let e = p.pick(&plan.corpus);
            if !e.src.contains("const ") && e.src.contains("pub fn main") && e.src.len() < 1500 {
                return ProgSpec { name: e.name.clone(), src: e.src.clone(), consts: vec![] };
            }
        }
    }
    if p.chance(1, 5) {
        return ProgSpec { name: "layout".into(), src: gen::layout_program(p), consts: vec![] };
    }
    ProgSpec { name: "small".into(), src: gen::small_program(p), consts: vec![] }
}

const WRITE_ERRNOS: &[i32] = &[libc::ENOSPC, libc::EIO, libc::EDQUOT, libc::EFBIG];
const OPEN_W_ERRNOS: &[i32] = &[libc::ENOENT, libc::EACCES, libc::EMFILE, libc::ENOSPC, libc::EROFS, libc::EISDIR];
const OPEN_R_ERRNOS: &[i32] = &[libc::ENOENT, libc::EACCES, libc::EMFILE];

fn draw_write_plan(p: &mut Prng, nwrites: u64) -> Plan {
    let mut plan = Plan::default();
    // swarm: each kind is enabled with its own coin
    let en_short = p.chance(1, 2);
    let en_eintr = p.chance(1, 2);
    let en_err = p.chance(1, 3);
    let en_cap = p.chance(1, 6);
    let en_open = p.chance(1, 20);
    let n = nwrites.max(1);
    if en_short {
        for _ in 0..p.range(1, 6) {
            plan.write.insert(p.below(n + 2), Act::Short(p.range(1, 6) as usize));
        }
    }
    if en_eintr {
        for _ in 0..p.range(1, 4) {
            plan.write.insert(p.below(n + 2), Act::Eintr);
        }
    }
    if en_err {
        let e = *p.pick(WRITE_ERRNOS);
        let at = p.below(n + 1);
        plan.write.insert(at, if p.chance(1, 2) { Act::Err(e) } else { Act::ErrSticky(e) });
        if p.chance(1, 3) && at > 0 {
            plan.write.insert(at - 1, Act::Short(1));
        }
    }
    if en_cap {
        plan.capacity = Some(p.below(n * 3 + 8));
    }
    if en_open {
        plan.open.insert(0, *p.pick(OPEN_W_ERRNOS));
    }
    if p.chance(1, 10) {
        plan.sync.insert(p.below(2), *p.pick(&[libc::EIO, libc::ENOSPC]));
    }
    plan
}

fn draw_read_plan(p: &mut Prng, len: usize) -> Plan {
    let mut plan = Plan::default();
    let nreads = (len / 8192 + 3) as u64;
    if p.chance(1, 2) {
        for _ in 0..p.range(1, 5) {
            plan.read.insert(p.below(nreads + 3), Act::Short(p.range(1, 40) as usize));
        }
    }
    if p.chance(1, 2) {
        for _ in 0..p.range(1, 3) {
            plan.read.insert(p.below(nreads + 3), Act::Eintr);
        }
    }
    if p.chance(1, 4) {
        if p.chance(1, 2) {
            // chunked reading with the error somewhere in the middle of the file
            let c = *p.pick(&[16u64, 64, 256]);
            let j = p.below(len as u64 / c + 2);
            for k in 0..j {
                plan.read.insert(k, Act::Short(c as usize));
            }
            plan.read.insert(j, Act::Err(libc::EIO));
        } else {
            plan.read.insert(p.below(nreads + 1), if p.chance(1, 2) { Act::Err(libc::EIO) } else { Act::ErrSticky(libc::EIO) });
        }
    }
    if p.chance(1, 25) {
        plan.open.insert(0, *p.pick(OPEN_R_ERRNOS));
    }
    if p.chance(1, 8) {
        plan.stat_size = Some(*p.pick(&[0u64, 0, 1, 17, (len / 2) as u64, len as u64 + 64]));
    }
    plan
}

fn draw_priors(plan: &CasePlan, p: &mut Prng) -> Vec<Prior> {
    let n = if p.chance(2, 3) { 1 } else { p.range(2, 3) };
    (0..n)
        .map(|_| match p.below(5) {
            4 => Prior::Related {
                kind: p.below(4) as u8,
                at: p.usize_below(4000),
                extra: match p.below(3) {
                    0 => b"\n".to_vec(),
                    1 => b"2 1 0 1 5 XOR\n1 1 5 6 INV\n".to_vec(),
                    _ => (0..p.range(1, 300)).map(|_| *p.pick(b"0123456789 \n XORANDINV")).collect(),
                },
            },
            0 => {
                // old contents: longer than most exports
                let len = p.range(1, 6000) as usize;
                let alphabet = b"0123456789 \n  XORANDINV12";
                Prior::Bytes((0..len).map(|_| alphabet[p.usize_below(alphabet.len())]).collect())
            }
            1 => Prior::Export(draw_subject(plan, p, true)),
            _ => {
                // a deliberately larger circuit, so that a missing truncation leaves a tail
                let ty = *p.pick(&["u16", "u32", "u8"]);
                let op = *p.pick(&["+", "*", "-"]);
                Prior::Export(ProgSpec {
                    name: "prior".into(),
                    src: format!("pub fn main(a: {ty}, b: {ty}) -> ({ty}, bool) {{\n    (a {op} b, a < b)\n}}\n"),
                    consts: vec![],
                })
            }
        })
        .collect()
}

const FILE_NAMES: &[&[u8]] = &[
    b"circuit.bristol.txt",
    b"with space and (parens).txt",
    "\u{fc}n\u{ef}c\u{f6}d\u{e9}-\u{7535}\u{8def}.txt".as_bytes(),
    b"gr\xf6\xdfe.txt",
    b"\xff\xfe\x80.bristol",
    b"no_extension",
    b".hidden",
    b"a.b.c.d.e.txt",
    b"xxxxxxxxxxxxxxxxxxxxxxxxxxxxxxxxxxxxxxxxxxxxxxxxxxxxxxxxxxxxxxxxxxxxxxxxxxxxxxxxxxxxxxxxxxxxxxxxxxxxxxxxxxxxxxxxxxxxxxxxxxxxxxxxxxxxxxxxxxxxxxxxxxxxxxxxxxxxxxxxxxxxxxxxxxxxxxxxxxxxxxxxxxxxxxxxxxxxxxxxxxxxxxxxxxxx.txt",
];

const TOKENS: &[&str] = &[
    "0", "1", "2", "3", "9", "10", "161", "4294967295", "4294967296", "18446744073709551615", "18446744073709551616",
    "99999999999999999999999", "4000000000000", "-1", "+1", "00", "XOR", "AND", "INV", "NAND", "EQ", "EQW", "MAND", "xor", "", "a", "1e3",
    "0x10", "١", "²", "１２", "5٣",
];

fn draw_corruptions(p: &mut Prng, len: usize, ntokens: usize, nlines: usize, structured: bool) -> Vec<Corruption> {
    let n = if p.chance(2, 3) { 1 } else { p.range(2, 3) };
    let len1 = len.max(1);
    let mut out = vec![];
    for _ in 0..n {
        let k = if structured { p.range(8, 17) } else { p.below(12) };
        out.push(match k {
            0 | 1 => Corruption::BitFlip { off: p.usize_below(len1), bit: p.below(8) as u8 },
            2 => Corruption::Subst { off: p.usize_below(len1), byte: *p.pick(b"0123456789 \n\tXA\0\xff") },
            3 => Corruption::Truncate { len: p.usize_below(len1 + 1) },
            4 => {
                let from = (p.usize_below(len1) / 4096) * 4096;
                if p.chance(1, 2) {
                    Corruption::DropTail { from }
                } else {
                    Corruption::ZeroTail { from }
                }
            }
            5 => Corruption::ZeroSector { sector: p.usize_below(len1 / SECTOR + 1) },
            6 => Corruption::GarbageSector { sector: p.usize_below(len1 / SECTOR + 1), seed: p.next_u64() },
            7 => {
                if p.chance(1, 2) {
                    Corruption::DupSector { sector: p.usize_below(len1 / SECTOR + 1) }
                } else {
                    Corruption::SwapSectors { a: p.usize_below(len1 / SECTOR + 1), b: p.usize_below(len1 / SECTOR + 1) }
                }
            }
            8 | 9 | 10 | 11 => {
                // header tokens are the interesting ones: bias to the first 8
                let index = if p.chance(1, 2) { p.usize_below(8.min(ntokens.max(1))) } else { p.usize_below(ntokens.max(1)) };
                Corruption::ReplaceToken { index, with: p.pick(TOKENS).to_string() }
            }
            12 => Corruption::DupLine { line: p.usize_below(nlines.max(1)) },
            13 => Corruption::DelLine { line: p.usize_below(nlines.max(1)) },
            14 => Corruption::SwapLines { a: p.usize_below(nlines.max(1)), b: p.usize_below(nlines.max(1)) },
            16 => Corruption::ForeignLine {
                line: p.usize_below(nlines.max(1) + 1),
                prefix: p.usize_below(12),
                len: p.range(1, 200) as usize,
                bytes_per_char: p.range(1, 4) as u8,
            },
            17 => {
                if p.chance(1, 2) {
                    Corruption::ForeignText { off: p.usize_below(len1), len: p.range(1, 120) as usize, bytes_per_char: p.range(2, 4) as u8 }
                } else {
                    Corruption::DialectLine { line: p.usize_below(nlines.max(1)), seed: p.next_u64(), replace: p.chance(1, 2) }
                }
            }
            _ => {
                if p.chance(1, 2) {
                    Corruption::Invalid { off: p.usize_below(len1) }
                } else if p.chance(1, 2) {
                    Corruption::Insert { off: p.usize_below(len1), bytes: p.pick(&[&b"\n"[..], b" ", b"1 ", b"\r\n", b"2 1 0 0 5 XOR\n"]).to_vec() }
                } else {
                    Corruption::Delete { off: p.usize_below(len1), n: p.range(1, 4) as usize }
                }
            }
        });
    }
    out
}

/// A header that declares, *consistently* across its three lines, a circuit of an absurd size
/// (2^56 .. 2^64 - 2 gates, wires and input bits) followed by a few gate lines: no single-token
/// replacement produces this, because the importer's consistency checks between the counts reject
/// a lone huge number early. Memory for such a circuit cannot exist, so the importer has to answer
/// with an error; it must not panic (capacity overflow) or abort (allocation failure) on the way.
fn huge_consistent_text(p: &mut Prng) -> Vec<u8> {
    let m: u64 = *p.pick(&[1u64 << 56, 100_000_000_000_000_000, 400_000_000_000_000_000, 1 << 59, 1 << 60, 1 << 61, 1 << 62, (1 << 63) - 1, 1 << 63, u64::MAX - 1]);
    let k = p.range(1, 3);
    let widths: Vec<u64> = match p.below(3) {
        0 => (0..k).map(|_| m / k).collect(),
        1 => (0..k).map(|i| if i == 0 { m - (k - 1) } else { 1 }).collect(),
        _ => (0..k).map(|i| if i + 1 == k { m - (k - 1) } else { 1 }).collect(),
    };
    let tot: u64 = widths.iter().sum();
    let nw = match p.below(4) {
        0 => tot,
        1 => tot.saturating_add(p.range(1, 3)),
        2 => tot.saturating_add(tot),
        _ => tot.saturating_add(1),
    };
    let ng = match p.below(5) {
        0 => nw,
        1 => nw - tot,
        2 => m - 1,
        3 => nw.saturating_add(1),
        _ => m,
    };
    let nout = *p.pick(&[1u64, 1, 1, 2, m]);
    let mut s = format!("{ng} {nw}\n{k} {}\n1 {nout}\n\n", widths.iter().map(|x| x.to_string()).collect::<Vec<_>>().join(" "));
    for g in 0..p.below(4) {
        let out = tot.saturating_add(g);
        let a = *p.pick(&[0u64, 1, tot - 1, tot / 2]);
        match p.below(3) {
            0 => s.push_str(&format!("2 1 {a} 0 {out} XOR\n")),
            1 => s.push_str(&format!("2 1 0 {a} {out} AND\n")),
            _ => s.push_str(&format!("1 1 {a} {out} INV\n")),
        }
    }
    s.into_bytes()
}

fn random_text(p: &mut Prng) -> Vec<u8> {
    if p.chance(1, 8) {
        return huge_consistent_text(p);
    }
    // plausible-looking Bristol text with wrong numbers, so the parser gets past the first checks
    let nin = p.range(1, 3);
    let ins: Vec<u64> = (0..nin).map(|_| *p.pick(&[0u64, 1, 2, 8, 16])).collect();
    let tot: u64 = ins.iter().sum();
    let ng = p.range(0, 6);
    let nw = match p.below(6) {
        0 => 0,
        1 => tot,
        2 => tot + ng + 1,
        3 => p.below(4),
        _ => tot + ng,
    };
    let nout = *p.pick(&[0u64, 1, 2, 3, nw, nw + 1, 40]);
    let mut s = format!("{ng} {nw}\n{nin} {} \n1 {nout}\n\n", ins.iter().map(|x| x.to_string()).collect::<Vec<_>>().join(" "));
    for g in 0..ng {
        let w = |p: &mut Prng| -> u64 {
            match p.below(8) {
                0 => nw,
                1 => nw + 3,
                2 => 0,
                _ => p.below(nw.max(1)),
            }
        };
        let out = if p.chance(3, 4) { tot + g } else { w(p) };
        match p.below(5) {
            0 => s.push_str(&format!("1 1 {} {} INV\n", w(p), out)),
            1 => s.push_str(&format!("2 1 {} {} {} AND\n", w(p), w(p), out)),
            2 => s.push_str(&format!("2 1 {} {} {} XOR\n", w(p), w(p), out)),
            3 => s.push_str(&format!("{} 1 {} {} {}\n", p.below(4), w(p), out, p.pick(&["XOR", "AND", "INV", "EQW"]))),
            _ => s.push_str(&format!("2 1 {} {} {} {}\n", w(p), w(p), out, p.pick(&["XOR", "AND", "MAND", "INV"]))),
        }
    }
    if p.chance(1, 4) {
        let l = foreign(p.range(1, 150) as usize, p.range(1, 4) as u8);
        if p.chance(1, 2) {
            s.push_str(&l);
            s.push('\n');
        } else {
            s = format!("{l}\n{s}");
        }
    }
    s.into_bytes()
}

/// number of fsync/fdatasync calls the last reference export issued
static NSYNC_OF_LAST_REFERENCE: std::sync::atomic::AtomicU64 = std::sync::atomic::AtomicU64::new(0);

fn reference_export(prog: &ProgSpec, dedup: bool, keys: Keys) -> Option<(Vec<u8>, u64, u64)> {
    // fault-free export to learn the size of the search space (write count, bytes)
    let w = World { program: Some(prog.clone()), dedup, keys, export_plan: Plan::default(), corruptions: vec![], import_plan: Plan::default(), via_lib: false, s5: None, raw_text: None, prior: vec![], earlier: vec![], file_name: None, stdio_broken: None, outside_replace: None, outside_keeps_mtime: false, env_flip: vec![], pipe: false, plain_build: false, misuse_before: false, relative_name: false };
    seams::reset_world();
    let w2 = w.clone();
    run_party(keys, move || {
        let c = compile_ssa(w2.program.as_ref().unwrap(), w2.dedup).ok()?;
        seams::install_plan(Plan::default());
        let path = seams::sim_path("probe.txt");
        match do_export(&c, "", &path, false) {
            ExportRes::Ok => {
                let (_, nw, _) = seams::syscall_counts();
                NSYNC_OF_LAST_REFERENCE.store(seams::sync_count(), std::sync::atomic::Ordering::Relaxed);
                let b = seams::disk_get("/SIMDISK/probe.txt")?;
                let n = b.len() as u64;
                Some((b, nw, n))
            }
            _ => None,
        }
    })
    .ok()
    .flatten()
}

pub fn make_world(plan: &CasePlan, seed: u64, idx: u64) -> (World, &'static str, Prng) {
    let (family, _sub) = plan.family(idx);
    let mut p = Prng::for_case(seed, "C11", idx);
    let keys = Keys::draw(&mut p);
    let dedup = p.chance(3, 4);
    let mut w = World {
        program: None,
        dedup,
        keys,
        export_plan: Plan::default(),
        corruptions: vec![],
        import_plan: Plan::default(),
        via_lib: false,
        s5: None,
        raw_text: None,
        prior: vec![],
        earlier: vec![],
        file_name: None,
        stdio_broken: None,
        outside_replace: None,
        outside_keeps_mtime: false,
        env_flip: vec![],
        pipe: false,
        plain_build: false,
        misuse_before: false,
        relative_name: false,
    };
    // the file's name and the state of the process's stdout/stderr are dimensions of every family
    if family != "s5" && p.chance(1, 3) {
        w.file_name = Some(p.pick(FILE_NAMES).to_vec());
    }
    if p.chance(1, 5) {
        w.stdio_broken = Some(*p.pick(&[libc::EPIPE, libc::ENOSPC, libc::EIO, libc::EBADF]));
    }
    match family {
        "seeded" => {
            let prog = draw_subject(plan, &mut p, true);
            let probe = reference_export(&prog, dedup, keys);
            let (nw, len) = probe.as_ref().map(|(_, nw, n)| (*nw, *n as usize)).unwrap_or((50, 200));
            w.via_lib = dedup && prog.consts.is_empty() && p.chance(1, 4);
            w.program = Some(prog);
            w.export_plan = draw_write_plan(&mut p, nw);
            w.import_plan = draw_read_plan(&mut p, len);
            if p.chance(1, 3) {
                w.prior = draw_priors(plan, &mut p);
            }
        }
        "large" if _sub % 3 == 2 => {
            // wire numbers at the decimal boundaries 10^5, 10^6, 10^7: a party so wide that the gates'
            // wires straddle the boundary (cheap: the file itself has only a hundred lines)
            let k = 7 - ((_sub / 3) % 3) as u32;
            let prog = ProgSpec { name: format!("wide-1e{k}"), src: gen::wide_program(&mut p, k), consts: vec![] };
            w.program = Some(prog);
            w.dedup = true;
            w.file_name = None;
        }
        "large" => {
            // an export of several MiB, written and read back fault-free or under transparent faults
            let prog = ProgSpec { name: "large".into(), src: gen::big_program(&mut p), consts: vec![] };
            w.program = Some(prog);
            w.dedup = true;
            if p.chance(1, 2) {
                for _ in 0..p.range(1, 6) {
                    w.export_plan.write.insert(p.below(400_000), if p.chance(1, 2) { Act::Short(p.range(1, 5) as usize) } else { Act::Eintr });
                }
                for _ in 0..p.range(1, 6) {
                    w.import_plan.read.insert(p.below(200), if p.chance(1, 2) { Act::Short(p.range(1, 8000) as usize) } else { Act::Eintr });
                }
            }
        }
        "history" => {
            // the path has a history: earlier exports / old contents, then the export under test
            // (fault-free or transparent faults only), then the import
            let prog = draw_subject(plan, &mut p, true);
            let probe = reference_export(&prog, dedup, keys);
            let (nw, len) = probe.as_ref().map(|(_, nw, n)| (*nw, *n as usize)).unwrap_or((50, 200));
            w.program = Some(prog);
            w.prior = draw_priors(plan, &mut p);
            if p.chance(1, 2) {
                w.outside_replace = Some(draw_subject(plan, &mut p, false));
                w.outside_keeps_mtime = p.chance(1, 2);
            }
            if p.chance(1, 2) {
                for _ in 0..p.range(1, 4) {
                    w.export_plan.write.insert(p.below(nw + 1), if p.chance(1, 2) { Act::Short(p.range(1, 5) as usize) } else { Act::Eintr });
                }
            }
            if p.chance(1, 3) {
                w.import_plan.read.insert(p.below((len / 8192 + 2) as u64), Act::Short(p.range(1, 30) as usize));
            }
        }
        "corrupt" => {
            let prog = draw_subject(plan, &mut p, true);
            let probe = reference_export(&prog, dedup, keys);
            let (bytes, nw) = probe.map(|(b, nw, _)| (b, nw)).unwrap_or((vec![], 50));
            let ntok = bytes.split(|b| b.is_ascii_whitespace()).filter(|t| !t.is_empty()).count();
            let nlines = bytes.iter().filter(|b| **b == b'\n').count();
            w.program = Some(prog);
            // crash point: the exporter dies at write #k (sticky error), optionally mid-call
            if p.chance(1, 3) {
                let k = p.below(nw.max(1));
                w.export_plan.write.insert(k, Act::ErrSticky(libc::EIO));
                if p.chance(1, 2) && k > 0 {
                    w.export_plan.write.insert(k - 1, Act::Short(1));
                }
            }
            if w.export_plan.is_empty() || p.chance(1, 2) {
                let structured = p.chance(1, 2);
                w.corruptions = draw_corruptions(&mut p, bytes.len(), ntok, nlines, structured);
            }
            if p.chance(1, 4) {
                w.import_plan = draw_read_plan(&mut p, bytes.len());
            }
        }
        "text" => {
            if p.chance(1, 2) {
                w.raw_text = Some(random_text(&mut p));
            } else {
                // heavily mutated valid export
                let prog = draw_subject(plan, &mut p, false);
                let bytes = reference_export(&prog, dedup, keys).map(|x| x.0).unwrap_or_default();
                let ntok = bytes.split(|b| b.is_ascii_whitespace()).filter(|t| !t.is_empty()).count();
                let nlines = bytes.iter().filter(|b| **b == b'\n').count();
                let mut img = bytes.clone();
                for _ in 0..p.range(1, 4) {
                    for c in draw_corruptions(&mut p, img.len(), ntok, nlines, true) {
                        apply_corruption(&mut img, &c);
                    }
                }
                w.raw_text = Some(img);
            }
            if p.chance(1, 6) {
                let n = w.raw_text.as_ref().map(|t| t.len()).unwrap_or(0);
                w.import_plan = draw_read_plan(&mut p, n);
            }
        }
        "s5" => {
            let a = draw_subject(plan, &mut p, false);
            let b = draw_subject(plan, &mut p, false);
            w.program = Some(a);
            let path_b = if p.chance(1, 2) {
                Some(p.pick(&["circuit.bristol.bak", "circuit.bristol.tmp", "circuit.bristol.txt2", "circuit.other.txt", "circuit.tmp", "other.bristol.txt"]).to_string())
            } else {
                None
            };
            w.s5 = Some(S5 { program_b: b, sched_seed: p.next_u64(), schedule: None, path_b });
        }
        _ => {
            // sweep: subject only; the enumeration happens in run_sweep. Prefer a subject that can be
            // exported (no input wire among the outputs) and is small enough to be swept completely.
            let mut chosen = None;
            for _ in 0..12 {
                let cand = ProgSpec { name: "small".into(), src: if p.chance(1, 4) { gen::layout_program(&mut p) } else { gen::small_program(&mut p) }, consts: vec![] };
                let ok = reference_export(&cand, dedup, keys).map(|(b, _, _)| b.len() <= 4096).unwrap_or(false);
                chosen = Some(cand);
                if ok {
                    break;
                }
            }
            w.program = chosen;
        }
    }
    if family != "sweep" && family != "s5" && w.program.is_some() && p.chance(1, 8) {
        w.misuse_before = true;
    }
    if family != "sweep" && family != "s5" && w.program.is_some() && w.outside_replace.is_none() && p.chance(1, 8) {
        w.relative_name = true;
    }
    if family != "sweep" && family != "s5" && p.chance(1, 12) {
        w.export_plan.locked_by_other = true;
        w.import_plan.locked_by_other = true;
    }
    // the kind of file behind the path is a dimension of every family whose world has no stored
    // bytes to begin with (old data in a FIFO is read before the new data, by any importer)
    if family != "sweep" && w.program.is_some() && w.prior.is_empty() && w.corruptions.is_empty() && w.outside_replace.is_none() && w.s5.is_none() && w.raw_text.is_none() && p.chance(1, 6) {
        w.pipe = true;
    }
    (w, family, p)
}

// ------------------------------------------------------------------------------------------
// minimisation and replay
// ------------------------------------------------------------------------------------------

fn has_class(o: &Obs, class: &str) -> Option<Finding> {
    o.findings.iter().find(|f| f.class == class).cloned()
}

pub fn minimise(w: &World, f: &Finding, history: &[World]) -> (World, Finding) {
    let class = f.class.clone();
    let mut best = w.clone();
    let mut bf = f.clone();
    // does the world reproduce in a fresh process? if not, the process's history matters
    if has_class(&run_world(&best), &class).is_none() && !history.is_empty() {
        let mut cand = best.clone();
        cand.earlier = history.to_vec();
        match has_class(&run_world(&cand), &class) {
            None => return (best, bf),
            Some(f2) => {
                best = cand;
                bf = f2;
            }
        }
        let mut chunk = (best.earlier.len() / 2).max(1);
        let mut budget = 80;
        while chunk >= 1 && budget > 0 {
            let mut i = 0;
            let mut progressed = false;
            while i < best.earlier.len() && budget > 0 {
                budget -= 1;
                let mut cand = best.clone();
                let end = (i + chunk).min(cand.earlier.len());
                cand.earlier.drain(i..end);
                if let Some(f2) = has_class(&run_world(&cand), &class) {
                    best = cand;
                    bf = f2;
                    progressed = true;
                } else {
                    i = end;
                }
            }
            if chunk == 1 && !progressed {
                break;
            }
            chunk = if chunk > 1 { chunk / 2 } else { 1 };
        }
        bf.what = format!("{} [only in a process that ran {} earlier export/import worlds on the same thread]", bf.what, best.earlier.len());
    }
    let mut try_world = |cand: World, best: &mut World, bf: &mut Finding| -> bool {
        let o = run_world(&cand);
        if let Some(f2) = has_class(&o, &class) {
            *best = cand;
            *bf = f2;
            true
        } else {
            false
        }
    };
    // materialise an S5 schedule so that it can be shrunk and replayed verbatim
    if let Some(s5) = &best.s5 {
        if s5.schedule.is_none() {
            let o = run_world(&best);
            if let (Some(tr), Some(_)) = (o.schedule.clone(), has_class(&o, &class)) {
                let mut cand = best.clone();
                cand.s5.as_mut().unwrap().schedule = Some(tr);
                try_world(cand, &mut best, &mut bf);
            }
        }
    }
    // drop faults one at a time
    for kind in 0..4 {
        loop {
            let keys: Vec<u64> = match kind {
                0 => best.export_plan.write.keys().copied().collect(),
                1 => best.export_plan.open.keys().copied().collect(),
                2 => best.import_plan.read.keys().copied().collect(),
                _ => best.import_plan.open.keys().copied().collect(),
            };
            let mut removed = false;
            for k in keys {
                let mut cand = best.clone();
                match kind {
                    0 => {
                        cand.export_plan.write.remove(&k);
                    }
                    1 => {
                        cand.export_plan.open.remove(&k);
                    }
                    2 => {
                        cand.import_plan.read.remove(&k);
                    }
                    _ => {
                        cand.import_plan.open.remove(&k);
                    }
                }
                if try_world(cand, &mut best, &mut bf) {
                    removed = true;
                    break;
                }
            }
            if !removed {
                break;
            }
        }
    }
    if best.export_plan.capacity.is_some() {
        let mut cand = best.clone();
        cand.export_plan.capacity = None;
        try_world(cand, &mut best, &mut bf);
    }
    // drop path history one entry at a time
    let mut i = 0;
    while i < best.prior.len() {
        let mut cand = best.clone();
        cand.prior.remove(i);
        if !try_world(cand, &mut best, &mut bf) {
            i += 1;
        }
    }
    // drop corruptions one at a time
    let mut i = 0;
    while i < best.corruptions.len() {
        let mut cand = best.clone();
        cand.corruptions.remove(i);
        if !try_world(cand, &mut best, &mut bf) {
            i += 1;
        }
    }
    if best.via_lib {
        let mut cand = best.clone();
        cand.via_lib = false;
        try_world(cand, &mut best, &mut bf);
    }
    if best.file_name.is_some() {
        let mut cand = best.clone();
        cand.file_name = None;
        try_world(cand, &mut best, &mut bf);
    }
    if best.stdio_broken.is_some() {
        let mut cand = best.clone();
        cand.stdio_broken = None;
        try_world(cand, &mut best, &mut bf);
    }
    // importer-only cases: materialise the damaged image as raw text and ddmin its lines
    if best.raw_text.is_none() && !best.corruptions.is_empty() && best.s5.is_none() && class == "import_panicked" {
        // compute the image by replaying export + corruptions without importing faults
        let img = {
            seams::reset_world();
            let b2 = best.clone();
            run_party(best.keys, move || {
                let c = compile_ssa(b2.program.as_ref()?, b2.dedup).ok()?;
                seams::install_plan(b2.export_plan.clone());
                let path = seams::sim_path("m.txt");
                let _ = do_export(&c, "", &path, false);
                seams::install_plan(Plan::default());
                let mut img = seams::disk_get("/SIMDISK/m.txt")?;
                for c in &b2.corruptions {
                    apply_corruption(&mut img, c);
                }
                Some(img)
            })
            .ok()
            .flatten()
        };
        if let Some(img) = img {
            let mut cand = best.clone();
            cand.program = None;
            cand.export_plan = Plan::default();
            cand.corruptions = vec![];
            cand.raw_text = Some(img);
            try_world(cand, &mut best, &mut bf);
        }
    }
    if let Some(raw) = best.raw_text.clone() {
        let mut lines: Vec<Vec<u8>> = raw.split(|b| *b == b'\n').map(|l| l.to_vec()).collect();
        let mut i = 0;
        let mut budget = 200;
        while i < lines.len() && budget > 0 {
            budget -= 1;
            let mut cand_lines = lines.clone();
            cand_lines.remove(i);
            let mut cand = best.clone();
            cand.raw_text = Some(cand_lines.join(&b'\n'));
            if try_world(cand, &mut best, &mut bf) {
                lines = cand_lines;
            } else {
                i += 1;
            }
        }
    }
    (best, bf)
}

pub fn replay_json(w: &World, f: &Finding, seed: u64, idx: Option<u64>) -> serde_json::Value {
    serde_json::json!({
        "property": "C11", "class": f.class, "signature": f.signature, "verif_seed": seed, "case": idx,
        "world": w,
        "raw_text_as_string": w.raw_text.as_ref().map(|t| String::from_utf8_lossy(t).to_string()),
        "observed": { "what": f.what },
    })
}

pub fn replay(v: &serde_json::Value) -> Result<Vec<Finding>, String> {
    let w: World = serde_json::from_value(v["world"].clone()).map_err(|e| format!("bad replay file: {e}"))?;
    if w.plain_build {
        let Some(prog) = &w.program else { return Ok(vec![]) };
        let seedtag = tag(prog.src.as_str());
        let keys = w.keys;
        let (prog2, dedup) = (prog.clone(), w.dedup);
        let subj = run_party(keys, move || prepared_subject(&prog2, dedup, keys, seedtag))?;
        let mut c = BTreeMap::new();
        return Ok(match (&subj.circuit, &subj.ref_bytes) {
            (Some(c0), Some(refb)) => plain_roundtrip(c0, refb, seedtag, 0, &mut c),
            _ => vec![],
        });
    }
    Ok(run_world(&w).findings)
}

// ------------------------------------------------------------------------------------------
// cases
// ------------------------------------------------------------------------------------------

fn absorb(obs: &Obs, w: &World, acc: &mut Acc) {
    acc.executions += obs.executions.max(1);
    for (k, v) in &obs.counters {
        *acc.counters.entry(k.clone()).or_insert(0) += v;
    }
    acc.images.extend(obs.image_hashes.iter().copied());
    acc.d.str(&obs.log_digest);
    acc.d.str(&obs.summary);
    acc.d.usize(obs.findings.len());
    for f in &obs.findings {
        acc.d.str(&f.signature);
    }
    if let Some(s) = &obs.schedule {
        let mut h = Digest::new();
        h.bytes(s);
        acc.interleavings.insert(h.finish().0);
        acc.d.bytes(s);
    }
    if obs.nontrivial {
        let mut h = Digest::new();
        h.str(&serde_json::to_string(w).unwrap());
        acc.nontrivial.insert(h.finish().0);
    }
    for f in &obs.findings {
        if acc.seen.insert(f.signature.clone()) {
            acc.pending.push((w.clone(), f.clone(), vec![]));
        }
    }
}

struct Acc {
    executions: u64,
    counters: BTreeMap<String, u64>,
    images: BTreeSet<u64>,
    interleavings: BTreeSet<u64>,
    nontrivial: BTreeSet<u64>,
    d: Digest,
    seen: BTreeSet<String>,
    pending: Vec<(World, Finding, Vec<World>)>,
}

/// Absorb a batch that ran on ONE thread: a finding's process history is the part of the batch
/// that ran before it (used only if the world alone does not reproduce the finding).
fn absorb_batch(obs: &[Obs], ws: &[World], acc: &mut Acc) {
    for (j, (o, w)) in obs.iter().zip(ws.iter()).enumerate() {
        let before = acc.pending.len();
        absorb(o, w, acc);
        for p in acc.pending.iter_mut().skip(before) {
            p.2 = ws[..j].to_vec();
        }
    }
}

fn run_sweep(base: &World, acc: &mut Acc) {
    let prog = base.program.as_ref().unwrap();
    let Some((bytes, nw, _)) = reference_export(prog, base.dedup, base.keys) else {
        *acc.counters.entry("sweep_subject_not_exportable".into()).or_insert(0) += 1;
        // still run the plain world once (covers OutputWireIsInput subjects)
        let o = run_world(base);
        absorb(&o, base, acc);
        return;
    };
    if bytes.len() > 4096 {
        *acc.counters.entry("sweep_subject_too_large".into()).or_insert(0) += 1;
        let o = run_world(base);
        absorb(&o, base, acc);
        return;
    }
    *acc.counters.entry("sweep_subjects".into()).or_insert(0) += 1;
    let nsync = NSYNC_OF_LAST_REFERENCE.load(std::sync::atomic::Ordering::Relaxed);
    let keys = base.keys;
    let mut batch: Vec<World> = Vec::new();
    let mut go = |w: World, acc: &mut Acc| {
        batch.push(w);
        if batch.len() >= 512 {
            let ws = std::mem::take(&mut batch);
            absorb_batch(&run_worlds(keys, ws.clone()), &ws, acc);
        }
    };
    go(base.clone(), acc);
    // the file is named relative to the current directory; another process holds a lock on it
    for via_lib in [false, true] {
        let mut w = base.clone();
        w.relative_name = true;
        w.via_lib = via_lib && w.dedup && prog.consts.is_empty();
        go(w, acc);
    }
    {
        let mut w = base.clone();
        w.export_plan.locked_by_other = true;
        w.import_plan.locked_by_other = true;
        go(w, acc);
    }
    // another caller misused the library in this process before (a panic inside the exporter, caught)
    {
        let mut w = base.clone();
        w.misuse_before = true;
        go(w.clone(), acc);
        go(base.clone(), acc);
    }
    // the path is a FIFO: fault-free, through the library wrappers, under transparent faults
    for variant in 0..4 {
        let mut w = base.clone();
        w.pipe = true;
        match variant {
            1 => w.via_lib = w.dedup && prog.consts.is_empty(),
            2 => {
                for k in 0..nw {
                    w.export_plan.write.insert(k, if k % 2 == 0 { Act::Short(1) } else { Act::Eintr });
                }
            }
            3 => {
                for k in 0..(bytes.len() as u64 + 4) {
                    w.import_plan.read.insert(k, Act::Short(1));
                }
            }
            _ => {}
        }
        go(w, acc);
    }
    // another process replaces the file between two imports (new / same modification time)
    for keep in [false, true] {
        let mut w = base.clone();
        w.outside_replace = Some(ProgSpec { name: "other".into(), src: "pub fn main(a: bool, b: bool) -> (bool, bool) {\n    (a & b, a ^ b)\n}\n".into(), consts: vec![] });
        w.outside_keeps_mtime = keep;
        go(w, acc);
    }
    // every file name of the pool, and every way the process's stdout/stderr can be broken
    for name in FILE_NAMES {
        let mut w = base.clone();
        w.file_name = Some(name.to_vec());
        go(w, acc);
    }
    for e in [libc::EPIPE, libc::ENOSPC, libc::EIO, libc::EBADF] {
        let mut w = base.clone();
        w.stdio_broken = Some(e);
        go(w.clone(), acc);
        // ... also while importing damaged files (warnings on stderr are a classic)
        for len in [bytes.len() / 2, bytes.len().saturating_sub(1)] {
            let mut w2 = w.clone();
            w2.corruptions = vec![Corruption::Truncate { len }];
            go(w2, acc);
        }
        for line in 0..6usize {
            let mut w2 = w.clone();
            w2.corruptions = vec![Corruption::DelLine { line }];
            go(w2.clone(), acc);
            w2.corruptions = vec![Corruption::DupLine { line }];
            go(w2, acc);
        }
        // gate lines of other Bristol dialects, inserted before / put in place of the first gate lines
        for line in 0..4usize {
            for seed in 0..24u64 {
                let mut w2 = w.clone();
                w2.corruptions = vec![Corruption::DialectLine { line, seed: seed * 7919 + line as u64, replace: seed % 2 == 1 }];
                go(w2, acc);
            }
        }
    }
    // the path's history: old contents / an earlier, larger export at the same path
    for prior in [
        Prior::Bytes(vec![b'7'; bytes.len() * 2 + 64]),
        Prior::Bytes(b"1 1\n".to_vec()),
        Prior::Export(ProgSpec { name: "prior".into(), src: "pub fn main(a: u16, b: u16) -> (u16, bool) {\n    (a + b, a < b)\n}\n".into(), consts: vec![] }),
        // old contents related to this very export: the same, the same plus a stale tail, a prefix, one byte off
        Prior::Related { kind: 0, at: 0, extra: vec![] },
        Prior::Related { kind: 1, at: 0, extra: b"\n".to_vec() },
        Prior::Related { kind: 1, at: 0, extra: b"2 1 0 1 5 XOR\n".to_vec() },
        Prior::Related { kind: 1, at: 0, extra: b"7".to_vec() },
        Prior::Related { kind: 2, at: bytes.len() / 2, extra: vec![] },
        Prior::Related { kind: 2, at: bytes.len().saturating_sub(1), extra: vec![] },
        Prior::Related { kind: 3, at: 0, extra: b"7".to_vec() },
        Prior::Related { kind: 3, at: bytes.len().saturating_sub(2), extra: b"7".to_vec() },
    ] {
        let mut w = base.clone();
        w.prior = vec![prior];
        go(w, acc);
    }
    // every write index x {short(1), short(mid), EINTR, ENOSPC, sticky EIO}
    for k in 0..nw {
        for act in [Act::Short(1), Act::Short(3), Act::Eintr, Act::Err(libc::ENOSPC), Act::ErrSticky(libc::EIO)] {
            let mut w = base.clone();
            w.export_plan.write.insert(k, act);
            go(w, acc);
        }
    }
    // disk full at every byte budget (coarse for long files)
    for cap in 0..=(bytes.len() as u64) {
        let mut w = base.clone();
        w.export_plan.capacity = Some(cap);
        go(w, acc);
    }
    for &e in OPEN_W_ERRNOS {
        let mut w = base.clone();
        w.export_plan.open.insert(0, e);
        go(w, acc);
    }
    // every fsync/fdatasync the exporter issues (none today) x {EIO, ENOSPC}
    for k in 0..nsync {
        for e in [libc::EIO, libc::ENOSPC] {
            let mut w = base.clone();
            w.export_plan.sync.insert(k, e);
            go(w, acc);
        }
    }
    // every read index x {short(1), short(7), EINTR, EIO}
    let nreads = (bytes.len() / 8192 + 3) as u64;
    for k in 0..nreads {
        for act in [Act::Short(1), Act::Short(7), Act::Eintr, Act::Err(libc::EIO)] {
            let mut w = base.clone();
            w.import_plan.read.insert(k, act);
            go(w, acc);
        }
    }
    // all reads short(1): the reader sees the file one byte at a time
    {
        let mut w = base.clone();
        for k in 0..(bytes.len() as u64 + 2) {
            w.import_plan.read.insert(k, Act::Short(1));
        }
        go(w, acc);
    }
    for &e in OPEN_R_ERRNOS {
        let mut w = base.clone();
        w.import_plan.open.insert(0, e);
        go(w, acc);
    }
    // the file's reported size is wrong (a pipe, a file still being appended to): transparent to
    // a reader that reads until end-of-file
    for lie in [0u64, 1, (bytes.len() / 2) as u64, bytes.len() as u64 + 100] {
        let mut w = base.clone();
        w.import_plan.stat_size = Some(lie);
        go(w, acc);
    }
    // interrupted opens are retried by std: transparent on both sides
    {
        let mut w = base.clone();
        w.export_plan.open.insert(0, libc::EINTR);
        w.import_plan.open.insert(0, libc::EINTR);
        w.import_plan.open.insert(1, libc::EINTR);
        go(w, acc);
    }
    // the reader sees the file in chunks of c bytes and the device fails at chunk j, for every j:
    // a read error in the middle of the file (not only before its first byte)
    for c in [1usize, 7, 64] {
        let nchunks = bytes.len() / c + 2;
        for j in 0..nchunks {
            let mut w = base.clone();
            for k in 0..j {
                w.import_plan.read.insert(k as u64, Act::Short(c));
            }
            w.import_plan.read.insert(j as u64, Act::Err(libc::EIO));
            go(w, acc);
        }
    }
    // every truncation offset, every single-bit flip, digit/space/newline substitution at every offset
    for len in 0..bytes.len() {
        let mut w = base.clone();
        w.corruptions = vec![Corruption::Truncate { len }];
        go(w, acc);
    }
    for off in 0..bytes.len() {
        for bit in 0..8 {
            let mut w = base.clone();
            w.corruptions = vec![Corruption::BitFlip { off, bit }];
            go(w, acc);
        }
        for &byte in b"09 \n" {
            if bytes[off] != byte {
                let mut w = base.clone();
                w.corruptions = vec![Corruption::Subst { off, byte }];
                go(w, acc);
            }
        }
    }
    // a foreign line of every length 1..160 (2-, 3- and 4-byte characters, three prefix lengths)
    // before the first gate line and at the end: any fixed-width handling of a line will meet a
    // character boundary somewhere in this range
    let nlines = bytes.iter().filter(|b| **b == b'\n').count();
    for bytes_per_char in [2u8, 3, 4] {
        for prefix in [0usize, 1, 2] {
            for len in 1..=160usize {
                for line in [4usize.min(nlines), nlines] {
                    let mut w = base.clone();
                    w.corruptions = vec![Corruption::ForeignLine { line, prefix, len, bytes_per_char }];
                    go(w, acc);
                }
            }
        }
    }
    // every header token x every replacement token
    let ntok = bytes.split(|b| b.is_ascii_whitespace()).filter(|t| !t.is_empty()).count();
    for index in 0..ntok.min(24) {
        for t in TOKENS {
            let mut w = base.clone();
            w.corruptions = vec![Corruption::ReplaceToken { index, with: t.to_string() }];
            go(w, acc);
        }
    }
    // flush the last partial batch
    let _ = &mut go;
    let ws = std::mem::take(&mut batch);
    absorb_batch(&run_worlds(keys, ws.clone()), &ws, acc);
}

pub fn run_case(plan: &CasePlan, seed: u64, idx: u64) -> CaseResult {
    clear_subject_cache();
    let _ = seams::take_env_queries();
    let (w, family, p) = make_world(plan, seed, idx);
    let mut acc = Acc {
        executions: 0,
        counters: BTreeMap::new(),
        images: BTreeSet::new(),
        interleavings: BTreeSet::new(),
        nontrivial: BTreeSet::new(),
        d: Digest::new(),
        seen: BTreeSet::new(),
        pending: vec![],
    };
    acc.d.u64(idx);
    acc.d.str(&serde_json::to_string(&w).unwrap());
    let mut sample_summary = String::new();
    if family == "sweep" {
        run_sweep(&w, &mut acc);
    } else {
        let o = run_world(&w);
        sample_summary = o.summary.clone();
        absorb(&o, &w, &mut acc);
    }
    // an exporter + importer built with default cargo features in release mode (crate /verif/plain,
    // mode `bristol`), on a real scratch file: same bytes as the fault-free export, function-equal import
    if family != "large" {
        if let Some(prog) = &w.program {
            let seedtag = tag(prog.src.as_str());
            let subj = prepared_subject(prog, w.dedup, w.keys, seedtag);
            if let (Some(c), Some(refb)) = (&subj.circuit, &subj.ref_bytes) {
                if c.gates.len() <= 20_000 {
                    for f in plain_roundtrip(c, refb, seedtag, idx, &mut acc.counters) {
                        if acc.seen.insert(f.signature.clone()) {
                            let w2 = World { export_plan: Plan::default(), import_plan: Plan::default(), corruptions: vec![], prior: vec![], earlier: vec![], s5: None, raw_text: None, outside_replace: None, pipe: false, plain_build: true, ..w.clone() };
                            acc.pending.push((w2, f, vec![]));
                        }
                    }
                }
            }
        }
    }
    // environment discovery: if the exporter / importer asked for environment variables or host
    // files, export and import the circuit once more in a fresh process in which they read
    // differently, with and without a working stdout/stderr
    let asked = seams::take_env_queries();
    *acc.counters.entry("environment_variables_asked_for".into()).or_insert(0) += asked.len() as u64;
    if !asked.is_empty() && w.program.is_some() {
        for stdio in [None, Some(libc::EPIPE)] {
            for via_lib in [false, true] {
                let w2 = World {
                    export_plan: Plan::default(),
                    import_plan: Plan::default(),
                    corruptions: vec![],
                    prior: vec![],
                    earlier: vec![],
                    s5: None,
                    raw_text: None,
                    outside_replace: None,
                    via_lib,
                    env_flip: asked.clone(),
                    stdio_broken: stdio,
                    ..w.clone()
                };
                let o = run_world_in_child(&w2);
                absorb(&o, &w2, &mut acc);
            }
        }
    }
    acc.d.u64(p.draws);
    let mut violations = vec![];
    for (fw, f, hist) in std::mem::take(&mut acc.pending) {
        // (no minimisation either when the scheduler had to break a deadlock between a lock of the code
        // under test and the baton: every re-run of such a world costs seconds of real time)
        let takeovers = crate::sched::TAKEOVERS.load(std::sync::atomic::Ordering::Relaxed) > 0;
        let (mw, mf) = if fw.env_flip.is_empty() && !fw.plain_build && !(takeovers && fw.s5.is_some()) { minimise(&fw, &f, &hist) } else { (fw.clone(), f.clone()) };
        violations.push(Violation {
            property: "C11".into(),
            class: mf.class.clone(),
            signature: mf.signature.clone(),
            what: mf.what.clone(),
            replay: replay_json(&mw, &mf, seed, Some(idx)),
        });
    }
    let mut sets = BTreeMap::new();
    sets.insert("disk_images_fed_to_importer".to_string(), acc.images.iter().copied().take(4000).collect());
    sets.insert("s5_interleavings".to_string(), acc.interleavings.iter().copied().collect());
    let sample = serde_json::json!({
        "case": idx, "family": family,
        "program": w.program.as_ref().map(|p| p.src.clone()),
        "export_plan": w.export_plan, "corruptions": w.corruptions, "import_plan": w.import_plan,
        "via_lib": w.via_lib, "s5": w.s5.is_some(), "prior_ops": w.prior.len(),
        "file_name": w.file_name.as_ref().map(|n| String::from_utf8_lossy(n).to_string()), "stdio_broken": w.stdio_broken,
        "raw_text": w.raw_text.as_ref().map(|t| String::from_utf8_lossy(t).chars().take(200).collect::<String>()),
        "outcome": sample_summary,
    });
    CaseResult {
        idx,
        family: family.to_string(),
        digest: acc.d.hex(),
        evaluations: acc.executions,
        nontrivial: acc.nontrivial.into_iter().take(20000).collect(),
        sets,
        counters: acc.counters,
        violations,
        sample: Some(sample),
    }
}
