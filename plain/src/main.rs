//! `garble-plain`: see Cargo.toml. Protocol (stdin -> stdout, one value per line):
//!   in : `S <flat...>` (SSA) or `R <flat...>` (register), numbers as produced by `flatten()` in the simulator
//!   out: `B <i>` before anything is done with value i, `A <i> <0|1>` validate verdict (`A <i> P <msg>` if
//!        validate panicked), then for accepted values with at most 4096 input bits one line per input
//!        vector: `E <i> ok <nbits>` / `E <i> panic <msg>`, finally `D <i>`.
//! Every line is flushed before the next step, so a death of this process is attributed to one value and stage.
use garble_lang::circuit::{Circuit, Gate};
use garble_lang::register_circuit as rc;
use std::io::{BufRead, Write};
use std::panic::{catch_unwind, AssertUnwindSafe};

fn say(s: &str) {
    let o = std::io::stdout();
    let mut o = o.lock();
    let _ = writeln!(o, "{s}");
    let _ = o.flush();
}

fn ssa_of(v: &[u64]) -> Option<Circuit> {
    let mut i = 0;
    let mut next = |i: &mut usize| -> Option<u64> {
        let x = v.get(*i).copied();
        *i += 1;
        x
    };
    let np = next(&mut i)? as usize;
    let mut input_gates = vec![];
    for _ in 0..np {
        input_gates.push(next(&mut i)? as usize);
    }
    let ng = next(&mut i)? as usize;
    let mut gates = Vec::with_capacity(ng.min(1 << 20));
    for _ in 0..ng {
        let (t, a, b) = (next(&mut i)?, next(&mut i)? as usize, next(&mut i)? as usize);
        gates.push(match t {
            1 => Gate::Xor(a, b),
            2 => Gate::And(a, b),
            _ => Gate::Not(a),
        });
    }
    let no = next(&mut i)? as usize;
    let mut output_gates = vec![];
    for _ in 0..no {
        output_gates.push(next(&mut i)? as usize);
    }
    Some(Circuit { input_gates, gates, output_gates })
}

fn reg_of(v: &[u64]) -> Option<rc::Circuit> {
    let mut i = 0;
    let mut next = |i: &mut usize| -> Option<u64> {
        let x = v.get(*i).copied();
        *i += 1;
        x
    };
    let np = next(&mut i)? as usize;
    let mut input_regs = vec![];
    for _ in 0..np {
        input_regs.push(next(&mut i)? as usize);
    }
    let ni = next(&mut i)? as usize;
    let mut insts = Vec::with_capacity(ni.min(1 << 20));
    for _ in 0..ni {
        let (out, t, a, b) = (next(&mut i)? as usize, next(&mut i)?, next(&mut i)?, next(&mut i)?);
        let op = match t {
            1 => rc::Op::Xor(rc::Xor(rc::Reg(a as u32), rc::Reg(b as u32))),
            2 => rc::Op::And(rc::And(rc::Reg(a as u32), rc::Reg(b as u32))),
            3 => rc::Op::Not(rc::Not(rc::Reg(a as u32))),
            _ => rc::Op::Input(rc::Input { party: a as u32, input: b as u32 }),
        };
        insts.push(rc::Inst { out: rc::Reg(out as u32), op });
    }
    let max_reg_count = next(&mut i)? as usize;
    let no = next(&mut i)? as usize;
    let mut output_regs = vec![];
    for _ in 0..no {
        output_regs.push(rc::Reg(next(&mut i)? as u32));
    }
    let and_ops = next(&mut i)? as usize;
    Some(rc::Circuit { input_regs, insts, max_reg_count, output_regs, and_ops })
}

fn inputs_for(parties: &[usize], mode: u64, seed: u64) -> Vec<Vec<bool>> {
    let mut x = seed.wrapping_mul(0x9E37_79B9_7F4A_7C15) ^ mode;
    parties
        .iter()
        .map(|&n| {
            (0..n)
                .map(|_| match mode {
                    0 => false,
                    1 => true,
                    _ => {
                        x = x.wrapping_mul(6364136223846793005).wrapping_add(1442695040888963407);
                        (x >> 40) & 1 == 1
                    }
                })
                .collect()
        })
        .collect()
}

fn msg_of(e: Box<dyn std::any::Any + Send>) -> String {
    let m = e.downcast_ref::<String>().cloned().or_else(|| e.downcast_ref::<&str>().map(|s| s.to_string())).unwrap_or_else(|| "?".into());
    m.replace('\n', " ").chars().take(160).collect()
}

fn main() {
    std::panic::set_hook(Box::new(|_| {}));
    let stdin = std::io::stdin();
    for (i, line) in stdin.lock().lines().enumerate() {
        let Ok(line) = line else { break };
        let mut it = line.split_ascii_whitespace();
        let kind = it.next().unwrap_or("");
        let flat: Vec<u64> = it.filter_map(|t| t.parse().ok()).collect();
        say(&format!("B {i}"));
        let small = |parties: &[usize]| parties.iter().try_fold(0usize, |a, &b| a.checked_add(b)).map(|t| t <= 4096).unwrap_or(false);
        match kind {
            "S" => {
                let Some(c) = ssa_of(&flat) else {
                    say(&format!("D {i}"));
                    continue;
                };
                match catch_unwind(AssertUnwindSafe(|| c.validate())) {
                    Ok(Ok(())) => say(&format!("A {i} 1")),
                    Ok(Err(_)) => say(&format!("A {i} 0")),
                    Err(e) => say(&format!("A {i} P {}", msg_of(e))),
                }
                if matches!(catch_unwind(AssertUnwindSafe(|| c.validate())), Ok(Ok(()))) && small(&c.input_gates) {
                    for mode in 0..4u64 {
                        let iv = inputs_for(&c.input_gates, mode, i as u64);
                        match catch_unwind(AssertUnwindSafe(|| c.eval(&iv))) {
                            Ok(out) => say(&format!("E {i} ok {} {}", out.len(), c.output_gates.len())),
                            Err(e) => {
                                say(&format!("E {i} panic {}", msg_of(e)));
                                break;
                            }
                        }
                    }
                }
            }
            "R" => {
                let Some(c) = reg_of(&flat) else {
                    say(&format!("D {i}"));
                    continue;
                };
                match catch_unwind(AssertUnwindSafe(|| c.validate())) {
                    Ok(Ok(())) => say(&format!("A {i} 1")),
                    Ok(Err(_)) => say(&format!("A {i} 0")),
                    Err(e) => say(&format!("A {i} P {}", msg_of(e))),
                }
                if matches!(catch_unwind(AssertUnwindSafe(|| c.validate())), Ok(Ok(()))) && small(&c.input_regs) {
                    for mode in 0..4u64 {
                        let iv = inputs_for(&c.input_regs, mode, i as u64);
                        match catch_unwind(AssertUnwindSafe(|| c.eval(&iv))) {
                            Ok(out) => say(&format!("E {i} ok {} {}", out.len(), c.output_regs.len())),
                            Err(e) => {
                                say(&format!("E {i} panic {}", msg_of(e)));
                                break;
                            }
                        }
                    }
                }
            }
            _ => {}
        }
        say(&format!("D {i}"));
    }
}
