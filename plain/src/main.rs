//! `garble-plain`: see Cargo.toml. Protocol (stdin -> stdout, one value per line):
//!   in : `S <flat...>` (SSA) or `R <flat...>` (register), numbers as produced by `flatten()` in the simulator
//!   out: `B <i>` before anything is done with value i, `A <i> <0|1>` validate verdict (`A <i> P <msg>` if
//!        validate panicked), then for accepted values with at most 4096 input bits one line per input
//!        vector: `E <i> ok <nbits>` / `E <i> panic <msg>`, finally `D <i>`.
//! Every line is flushed before the next step, so a death of this process is attributed to one value and stage.
use garble_lang::circuit::{Circuit, Gate};
use garble_lang::register_circuit as rc;
use std::io::{BufRead, Write};
use std::panic::{catch_unwind, AssertUnwindSafe};

fn say(s: &str) {
    let o = std::io::stdout();
    let mut o = o.lock();
    let _ = writeln!(o, "{s}");
    let _ = o.flush();
}

fn ssa_of(v: &[u64]) -> Option<Circuit> {
    let mut i = 0;
    let mut next = |i: &mut usize| -> Option<u64> {
        let x = v.get(*i).copied();
        *i += 1;
        x
    };
    let np = next(&mut i)? as usize;
    let mut input_gates = vec![];
    for _ in 0..np {
        input_gates.push(next(&mut i)? as usize);
    }
    let ng = next(&mut i)? as usize;
    let mut gates = Vec::with_capacity(ng.min(1 << 20));
    for _ in 0..ng {
        let (t, a, b) = (next(&mut i)?, next(&mut i)? as usize, next(&mut i)? as usize);
        gates.push(match t {
            1 => Gate::Xor(a, b),
            2 => Gate::And(a, b),
            _ => Gate::Not(a),
        });
    }
    let no = next(&mut i)? as usize;
    let mut output_gates = vec![];
    for _ in 0..no {
        output_gates.push(next(&mut i)? as usize);
    }
    Some(Circuit { input_gates, gates, output_gates })
}

fn reg_of(v: &[u64]) -> Option<rc::Circuit> {
    let mut i = 0;
    let mut next = |i: &mut usize| -> Option<u64> {
        let x = v.get(*i).copied();
        *i += 1;
        x
    };
    let np = next(&mut i)? as usize;
    let mut input_regs = vec![];
    for _ in 0..np {
        input_regs.push(next(&mut i)? as usize);
    }
    let ni = next(&mut i)? as usize;
    let mut insts = Vec::with_capacity(ni.min(1 << 20));
    for _ in 0..ni {
        let (out, t, a, b) = (next(&mut i)? as usize, next(&mut i)?, next(&mut i)?, next(&mut i)?);
        let op = match t {
            1 => rc::Op::Xor(rc::Xor(rc::Reg(a as u32), rc::Reg(b as u32))),
            2 => rc::Op::And(rc::And(rc::Reg(a as u32), rc::Reg(b as u32))),
            3 => rc::Op::Not(rc::Not(rc::Reg(a as u32))),
            _ => rc::Op::Input(rc::Input { party: a as u32, input: b as u32 }),
        };
        insts.push(rc::Inst { out: rc::Reg(out as u32), op });
    }
    let max_reg_count = next(&mut i)? as usize;
    let no = next(&mut i)? as usize;
    let mut output_regs = vec![];
    for _ in 0..no {
        output_regs.push(rc::Reg(next(&mut i)? as u32));
    }
    let and_ops = next(&mut i)? as usize;
    Some(rc::Circuit { input_regs, insts, max_reg_count, output_regs, and_ops })
}

fn inputs_for(parties: &[usize], mode: u64, seed: u64) -> Vec<Vec<bool>> {
    let mut x = seed.wrapping_mul(0x9E37_79B9_7F4A_7C15) ^ mode;
    parties
        .iter()
        .map(|&n| {
            (0..n)
                .map(|_| match mode {
                    0 => false,
                    1 => true,
                    _ => {
                        x = x.wrapping_mul(6364136223846793005).wrapping_add(1442695040888963407);
                        (x >> 40) & 1 == 1
                    }
                })
                .collect()
        })
        .collect()
}

fn msg_of(e: Box<dyn std::any::Any + Send>) -> String {
    let m = e.downcast_ref::<String>().cloned().or_else(|| e.downcast_ref::<&str>().map(|s| s.to_string())).unwrap_or_else(|| "?".into());
    m.replace('\n', " ").chars().take(160).collect()
}

fn main() {
    std::panic::set_hook(Box::new(|_| {}));
    let args: Vec<String> = std::env::args().collect();
    match args.get(1).map(|s| s.as_str()) {
        Some("compile") => compile_main(),
        Some("bristol") => bristol_main(args.get(2).map(|s| s.as_str()).unwrap_or("")),
        _ => values_main(),
    }
}

fn unhex(h: &str) -> String {
    let b: Vec<u8> = (0..h.len() / 2).filter_map(|i| u8::from_str_radix(&h[2 * i..2 * i + 2], 16).ok()).collect();
    String::from_utf8_lossy(&b).into_owned()
}

fn flat_ssa(c: &Circuit) -> String {
    let mut v: Vec<u64> = vec![c.input_gates.len() as u64];
    v.extend(c.input_gates.iter().map(|&x| x as u64));
    v.push(c.gates.len() as u64);
    for g in &c.gates {
        match g {
            Gate::Xor(x, y) => v.extend([1, *x as u64, *y as u64]),
            Gate::And(x, y) => v.extend([2, *x as u64, *y as u64]),
            Gate::Not(x) => v.extend([3, *x as u64, 0]),
        }
    }
    v.push(c.output_gates.len() as u64);
    v.extend(c.output_gates.iter().map(|&x| x as u64));
    v.iter().map(|x| x.to_string()).collect::<Vec<_>>().join(" ")
}

fn flat_reg(c: &rc::Circuit) -> String {
    let mut v: Vec<u64> = vec![c.input_regs.len() as u64];
    v.extend(c.input_regs.iter().map(|&x| x as u64));
    v.push(c.insts.len() as u64);
    for i in &c.insts {
        let (t, a, b) = match i.op {
            rc::Op::Xor(rc::Xor(a, b)) => (1, a.0 as u64, b.0 as u64),
            rc::Op::And(rc::And(a, b)) => (2, a.0 as u64, b.0 as u64),
            rc::Op::Not(rc::Not(a)) => (3, a.0 as u64, 0),
            rc::Op::Input(rc::Input { party, input }) => (4, party as u64, input as u64),
        };
        v.extend([i.out.0 as u64, t, a, b]);
    }
    v.push(c.max_reg_count as u64);
    v.push(c.output_regs.len() as u64);
    v.extend(c.output_regs.iter().map(|r| r.0 as u64));
    v.push(c.and_ops as u64);
    v.iter().map(|x| x.to_string()).collect::<Vec<_>>().join(" ")
}

/// `garble-plain compile`: a party of C06 built with default features in release mode.
/// in : `SRC <hex>` | `WARM <hex>` (compile that program first, result ignored) | `CONST <party> <name> <type> <value>`
///      | `CLEAR` (forget the constants) | `GO <fn> <register 0|1> <dedup 0|1> <via library entry 0|1>`
/// out: per GO one line `OK S|R <flat...>` / `ERR <class>` / `PANIC`
fn compile_main() {
    use garble_lang::circuit_type::CircuitType;
    use garble_lang::literal::Literal;
    use garble_lang::token::{SignedNumType as S, UnsignedNumType as U};
    use garble_lang::{CircuitKind, CompileOptions};
    use std::collections::HashMap;
    let mut src = String::new();
    let mut consts: Vec<(String, String, String, i64)> = vec![];
    let stdin = std::io::stdin();
    for line in stdin.lock().lines() {
        let Ok(line) = line else { break };
        let t: Vec<&str> = line.split(' ').collect();
        match t.first().copied().unwrap_or("") {
            "SRC" => src = unhex(t.get(1).copied().unwrap_or("")),
            "WARM" => {
                let other = unhex(t.get(1).copied().unwrap_or(""));
                let _ = catch_unwind(AssertUnwindSafe(|| garble_lang::compile(&other).map(|_| ())));
            }
            "CLEAR" => consts.clear(),
            "CONST" if t.len() >= 5 => consts.push((t[1].to_string(), t[2].to_string(), t[3].to_string(), t[4].parse().unwrap_or(0))),
            "GO" if t.len() >= 5 => {
                let (fn_name, register, dedup, via_lib, defaults) = (t[1].to_string(), t[2] == "1", t[3] == "1", t[4] == "1", t[4] == "2");
                let mut m: HashMap<String, HashMap<String, Literal>> = HashMap::new();
                for (party, name, ty, val) in &consts {
                    let lit = match ty.as_str() {
                        "bool" => {
                            if *val != 0 {
                                Literal::True
                            } else {
                                Literal::False
                            }
                        }
                        "u8" => Literal::NumUnsigned(*val as u64, U::U8),
                        "u16" => Literal::NumUnsigned(*val as u64, U::U16),
                        "u32" => Literal::NumUnsigned(*val as u64, U::U32),
                        "u64" => Literal::NumUnsigned(*val as u64, U::U64),
                        "i8" => Literal::NumSigned(*val, S::I8),
                        "i16" => Literal::NumSigned(*val, S::I16),
                        "i32" => Literal::NumSigned(*val, S::I32),
                        "i64" => Literal::NumSigned(*val, S::I64),
                        _ => Literal::NumUnsigned(*val as u64, U::Usize),
                    };
                    m.entry(party.clone()).or_default().insert(name.clone(), lit);
                }
                let r = catch_unwind(AssertUnwindSafe(|| -> Result<CircuitType, garble_lang::Error> {
                    let kind = if register { CircuitKind::Register } else { CircuitKind::Ssa };
                    if defaults {
                        // the library's default options
                        return garble_lang::compile_with_constants(&src, m).map(|p| p.circuit);
                    }
                    if via_lib && fn_name == "main" {
                        let opts = CompileOptions { circuit_kind: kind, consts: m, optimize_duplicate_gates: dedup };
                        return garble_lang::compile_with_options(&src, opts).map(|p| p.circuit);
                    }
                    let tp = garble_lang::check(&src)?;
                    let opts = CompileOptions { circuit_kind: kind, consts: HashMap::new(), optimize_duplicate_gates: dedup };
                    let (c, _f, _sizes) = tp.compile_with_constants(&fn_name, m, &opts)?;
                    let mut ct = CircuitType::Ssa(c);
                    if register {
                        ct.to_register();
                    }
                    Ok(ct)
                }));
                match r {
                    Ok(Ok(CircuitType::Ssa(c))) => say(&format!("OK S {}", flat_ssa(&c))),
                    Ok(Ok(CircuitType::Register(c))) => say(&format!("OK R {}", flat_reg(&c))),
                    Ok(Err(e)) => {
                        use garble_lang::{CompileTimeError as C, Error as E};
                        let class = match e {
                            E::FnNotFound(_) => "fn_not_found",
                            E::CompileTimeError(C::ScanErrors(_)) => "scan",
                            E::CompileTimeError(C::ParseError(_)) => "parse",
                            E::CompileTimeError(C::TypeError(_)) => "type",
                            E::CompileTimeError(C::CompilerError(_)) => "compiler",
                            E::EvalError(_) => "eval",
                            E::ConvertError(_) => "convert",
                        };
                        say(&format!("ERR {class}"));
                    }
                    Err(e) => say(&format!("PANIC {}", msg_of(e))),
                }
            }
            _ => {}
        }
    }
}

/// `garble-plain bristol <scratch file>`: exporter + importer of C11 built with default features in
/// release mode, on a real (scratch) file. in: one line `S <flat...>`; out: `EXPORT ok|err|panic ...`,
/// `BYTES <hex>`, `IMPORT ok S <flat...>|err <class>|panic <msg>`.
fn bristol_main(path: &str) {
    let stdin = std::io::stdin();
    let mut line = String::new();
    if stdin.lock().read_line(&mut line).is_err() {
        return;
    }
    let flat: Vec<u64> = line.split_ascii_whitespace().skip(1).filter_map(|t| t.parse().ok()).collect();
    let Some(c) = ssa_of(&flat) else { return };
    let p = std::path::Path::new(path);
    let _ = std::fs::remove_file(p);
    match catch_unwind(AssertUnwindSafe(|| c.format_as_bristol(p))) {
        Ok(Ok(())) => say("EXPORT ok"),
        Ok(Err(e)) => say(&format!("EXPORT err {}", format!("{e:?}").replace('\n', " ").chars().take(120).collect::<String>())),
        Err(e) => say(&format!("EXPORT panic {}", msg_of(e))),
    }
    let bytes = std::fs::read(p).unwrap_or_default();
    say(&format!("BYTES {}", bytes.iter().map(|b| format!("{b:02x}")).collect::<String>()));
    match catch_unwind(AssertUnwindSafe(|| Circuit::bristol_to_garble(p))) {
        Ok(Ok(ic)) => say(&format!("IMPORT ok S {}", flat_ssa(&ic))),
        Ok(Err(e)) => say(&format!("IMPORT err {}", format!("{e:?}").replace('\n', " ").chars().take(120).collect::<String>())),
        Err(e) => say(&format!("IMPORT panic {}", msg_of(e))),
    }
    let _ = std::fs::remove_file(p);
}

fn values_main() {
    let stdin = std::io::stdin();
    for (i, line) in stdin.lock().lines().enumerate() {
        let Ok(line) = line else { break };
        let mut it = line.split_ascii_whitespace();
        let kind = it.next().unwrap_or("");
        let flat: Vec<u64> = it.filter_map(|t| t.parse().ok()).collect();
        say(&format!("B {i}"));
        let small = |parties: &[usize]| parties.iter().try_fold(0usize, |a, &b| a.checked_add(b)).map(|t| t <= 4096).unwrap_or(false);
        match kind {
            "S" => {
                let Some(c) = ssa_of(&flat) else {
                    say(&format!("D {i}"));
                    continue;
                };
                match catch_unwind(AssertUnwindSafe(|| c.validate())) {
                    Ok(Ok(())) => say(&format!("A {i} 1")),
                    Ok(Err(_)) => say(&format!("A {i} 0")),
                    Err(e) => say(&format!("A {i} P {}", msg_of(e))),
                }
                if matches!(catch_unwind(AssertUnwindSafe(|| c.validate())), Ok(Ok(()))) && small(&c.input_gates) {
                    for mode in 0..4u64 {
                        let iv = inputs_for(&c.input_gates, mode, i as u64);
                        match catch_unwind(AssertUnwindSafe(|| c.eval(&iv))) {
                            Ok(out) => say(&format!("E {i} ok {} {}", out.len(), c.output_gates.len())),
                            Err(e) => {
                                say(&format!("E {i} panic {}", msg_of(e)));
                                break;
                            }
                        }
                    }
                }
            }
            "R" => {
                let Some(c) = reg_of(&flat) else {
                    say(&format!("D {i}"));
                    continue;
                };
                match catch_unwind(AssertUnwindSafe(|| c.validate())) {
                    Ok(Ok(())) => say(&format!("A {i} 1")),
                    Ok(Err(_)) => say(&format!("A {i} 0")),
                    Err(e) => say(&format!("A {i} P {}", msg_of(e))),
                }
                if matches!(catch_unwind(AssertUnwindSafe(|| c.validate())), Ok(Ok(()))) && small(&c.input_regs) {
                    for mode in 0..4u64 {
                        let iv = inputs_for(&c.input_regs, mode, i as u64);
                        match catch_unwind(AssertUnwindSafe(|| c.eval(&iv))) {
                            Ok(out) => say(&format!("E {i} ok {} {}", out.len(), c.output_regs.len())),
                            Err(e) => {
                                say(&format!("E {i} panic {}", msg_of(e)));
                                break;
                            }
                        }
                    }
                }
            }
            _ => {}
        }
        say(&format!("D {i}"));
    }
}
