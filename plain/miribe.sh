#!/bin/bash
# garble-plain as a party on a BIG-ENDIAN machine: the same crate, interpreted by Miri for
# s390x-unknown-linux-gnu (sysroot and crate are built by ./check before the run starts).
cd "$(dirname "$(readlink -f "$0")")" || exit 2
export CARGO_NET_OFFLINE=true MIRI_SYSROOT="$PWD/target/miri-sysroot-s390x" MIRIFLAGS="-Zmiri-disable-isolation"
exec cargo +nightly miri run -q --offline --target s390x-unknown-linux-gnu -- "$@" 2>/dev/null
