#!/bin/bash
# garble-plain as a party on a machine with 32-bit words: the same crate, interpreted by Miri for
# i686-unknown-linux-gnu (sysroot and crate are built by ./check before the run starts).
cd "$(dirname "$(readlink -f "$0")")" || exit 2
export CARGO_NET_OFFLINE=true MIRI_SYSROOT="$PWD/target/miri-sysroot-i686" MIRIFLAGS="-Zmiri-disable-isolation"
exec cargo +nightly miri run -q --offline --target i686-unknown-linux-gnu -- "$@" 2>/dev/null
