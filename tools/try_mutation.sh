#!/bin/bash
# usage: tools/try_mutation.sh <patch.diff> <property> [tier]
# Applies a seeded change to /repo, runs the property's check, and ALWAYS restores /repo.
# Prints: exit code of the check and its VIOLATION lines. Never commits anything in /repo.
set -u
patch="$(readlink -f "$1")"; prop="$2"; tier="${3:-quick}"
cd /repo || exit 2
if [ -n "$(git status --porcelain -- src Cargo.toml)" ]; then echo "refusing: /repo has uncommitted changes"; exit 2; fi
if ! git apply --3way "$patch" 2>/tmp/apply.err && ! git apply "$patch" 2>>/tmp/apply.err; then echo "patch does not apply:"; cat /tmp/apply.err; git checkout -- . ; git reset -q; exit 2; fi
git reset -q
trap 'git -C /repo checkout -- . ; git -C /repo reset -q' EXIT
cd /verif
./check "$prop" "$tier" > /tmp/try_mutation.out 2>&1
rc=$?
echo "check exit code: $rc"
grep -E "^VIOLATION|^  class=|^HARNESS-ERROR|^KNOWN-FINDING|^property=" /tmp/try_mutation.out | cut -c1-300 | head -20
exit $rc
