#!/usr/bin/env python3
"""One-off corpus extraction (its output, corpus/candidates.json, is then filtered by
`garble-sim corpus-filter` and the result committed as corpus/extracted.json).
Pulls every string literal / fenced block that contains `fn ` from /repo's tests, docs and examples."""
import re, json, sys, os, itertools, glob

REPO = sys.argv[1] if len(sys.argv) > 1 else "/repo"
out = []
seen = set()

def add(name, src):
    src = src.strip("\n") + "\n"
    if "fn " not in src: return
    if src in seen: return
    seen.add(src)
    out.append({"name": name, "src": src})

def rust_literals(text):
    """yield (is_raw, body) for each string literal in Rust source (best effort)."""
    i, n = 0, len(text)
    while i < n:
        c = text[i]
        if text.startswith("//", i):
            j = text.find("\n", i); i = n if j < 0 else j; continue
        if c == "'" :
            # char literal or lifetime: skip conservatively
            m = re.match(r"'(\\.|[^\\'])'", text[i:])
            if m: i += m.end(); continue
            i += 1; continue
        if c == 'r' and re.match(r'r#*"', text[i:]):
            m = re.match(r'r(#*)"', text[i:])
            hashes = m.group(1)
            start = i + m.end()
            end = text.find('"' + hashes, start)
            if end < 0: break
            yield True, text[start:end]
            i = end + 1 + len(hashes); continue
        if c == '"':
            j = i + 1; buf = []
            while j < n and text[j] != '"':
                if text[j] == '\\':
                    e = text[j+1]
                    if e == 'n': buf.append("\n")
                    elif e == 't': buf.append("\t")
                    elif e == '"': buf.append('"')
                    elif e == '\\': buf.append('\\')
                    elif e == '\n':
                        j += 2
                        while j < n and text[j] in " \t\n": j += 1
                        continue
                    else: buf.append(e)
                    j += 2
                else:
                    buf.append(text[j]); j += 1
            yield False, "".join(buf)
            i = j + 1; continue
        i += 1

CANDS = ["true", "false", "0", "1", "2", "3", "7", "u8", "i8", "u16", "i16", "u32", "i32", "u64", "i64", "usize", "+", "-", "*", "/", "%", "&", "|", "^", "<", ">", "==", "!=", "<=", ">=", "<<", ">>", "&&", "||"]

def expand_format(s):
    ph = sorted(set(re.findall(r"(?<!\{)\{([a-z_][a-z_0-9]*)?\}(?!\})", s)))
    has_braces = "{{" in s or "}}" in s
    if not ph and not has_braces:
        return [s]
    res = [s] if not ph else []
    for cand in CANDS:
        t = re.sub(r"(?<!\{)\{([a-z_][a-z_0-9]*)?\}(?!\})", cand, s)
        t = t.replace("{{", "{").replace("}}", "}")
        res.append(t)
    if not ph:
        res.append(s.replace("{{", "{").replace("}}", "}"))
    return res

for path in sorted(glob.glob(f"{REPO}/tests/*.rs") + glob.glob(f"{REPO}/src/*.rs")):
    text = open(path).read()
    k = 0
    for raw, body in rust_literals(text):
        if "fn " not in body or "(" not in body: continue
        for v in expand_format(body):
            add(f"{os.path.relpath(path, REPO)}#{k}", v); k += 1

for path in sorted(glob.glob(f"{REPO}/garble_docs/src/**/*.md", recursive=True) + [f"{REPO}/README.md"]):
    text = open(path).read()
    for k, m in enumerate(re.finditer(r"```(?:rust|garble)?[^\n]*\n(.*?)```", text, re.S)):
        add(f"{os.path.relpath(path, REPO)}#{k}", m.group(1))

for path in sorted(glob.glob(f"{REPO}/garble_examples/**/*.garble.rs", recursive=True)):
    add(os.path.relpath(path, REPO), open(path).read())

json.dump(out, open("/verif/corpus/candidates.json", "w"), indent=0)
print(len(out), "candidates")
