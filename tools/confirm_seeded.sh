#!/bin/bash
# usage: tools/confirm_seeded.sh <name> <patch.diff> <demo.rs>
# Confirms a seeded change in a scratch worktree outside /repo and /verif:
#  (a) with the change the repository's whole existing suite still passes,
#  (b) the demonstration fails with the change, (c) passes without it.
# Writes /tmp/confirm/<name>.txt and removes the worktree and its build output afterwards.
set -u
name="$1"; patch="$(readlink -f "$2")"; demo="$(readlink -f "$3")"
wt="/tmp/confirm-wt-$name"; out="/tmp/confirm/$name.txt"; mkdir -p /tmp/confirm
export CARGO_NET_OFFLINE=true
git -C /repo worktree remove --force "$wt" 2>/dev/null
git -C /repo worktree add -q --detach "$wt" HEAD || exit 2
cd "$wt" || exit 2
{
echo "base commit: $(git rev-parse --short HEAD)"
git apply --3way "$patch" 2>&1 || git apply "$patch" 2>&1 || { echo "PATCH DOES NOT APPLY"; }
git reset -q
echo "--- (a) existing suite with the change"
cargo test --workspace --no-fail-fast --offline 2>&1 | awk '/^test result/{p+=$4; f+=$6} END {print "passed=" p " failed=" f}'
cp "$demo" tests/demo_seeded.rs
echo "--- (b) demonstration with the change (expected: fails)"
cargo test --offline --features serde --test demo_seeded 2>&1 | grep -E "^test result|^test .*(ok|FAILED)$" | head -8
git checkout -q -- src Cargo.toml
echo "--- (c) demonstration without the change (expected: passes)"
cargo test --offline --features serde --test demo_seeded 2>&1 | grep -E "^test result|^test .*(ok|FAILED)$" | head -8
} > "$out" 2>&1
cd /tmp
git -C /repo worktree remove --force "$wt"
cat "$out"
